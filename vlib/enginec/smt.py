"""Engine C: run SMT-LIB text through cvc5 / z3 binaries; parse verdicts."""
import os
import re
import subprocess
import tempfile
import time


def run_smt(text, solver="cvc5", timeout=300, extra=()):
    """returns dict(result=sat|unsat|unknown|error, time_s, output)"""
    with tempfile.NamedTemporaryFile("w", suffix=".smt2", delete=False) as f:
        f.write(text)
        path = f.name
    if solver == "cvc5":
        cmd = ["cvc5", "--strings-exp", "--tlimit=%d" % (timeout * 1000), *extra, path]
    elif solver == "z3":
        cmd = ["z3", "-T:%d" % timeout, *extra, path]
    elif solver == "z3-new":
        cmd = ["z3-new", "-T:%d" % timeout, *extra, path]
    else:
        raise ValueError(solver)
    t0 = time.time()
    try:
        p = subprocess.run(cmd, capture_output=True, text=True, timeout=timeout + 20)
        out = (p.stdout or "") + (p.stderr or "")
    except subprocess.TimeoutExpired:
        out = "timeout"
    finally:
        os.unlink(path)
    dt = time.time() - t0
    first = ""
    before = []
    for line in out.splitlines():
        line = line.strip()
        if line in ("sat", "unsat", "unknown"):
            first = line
            break
        before.append(line)
    # an (error before the verdict makes the verdict untrustworthy; errors after it
    # (e.g. get-value after unsat) do not
    if any("(error" in b for b in before) or not first:
        res = "error" if any("(error" in b for b in before) else "unknown"
    else:
        res = first
    return dict(result=res, time_s=round(dt, 2), output=out[:3000], solver=solver)


def smt_str(s):
    """python str -> SMT-LIB 2.6 string literal"""
    out = []
    for ch in s:
        o = ord(ch)
        if ch == '"':
            out.append('""')
        elif 32 <= o < 127 and ch != "\\":
            out.append(ch)
        else:
            out.append("\\u{%x}" % o)
    return '"' + "".join(out) + '"'


def parse_model_strings(output):
    """(define-fun x () String "...") -> {x: python str}"""
    m = {}
    for name, val in re.findall(r'\(define-fun\s+(\S+)\s+\(\)\s+String\s+"((?:[^"]|"")*)"\)', output):
        val = val.replace('""', '"')
        val = re.sub(r"\\u\{([0-9a-fA-F]+)\}", lambda mo: chr(int(mo.group(1), 16)), val)
        val = re.sub(r"\\x([0-9a-fA-F]{2})", lambda mo: chr(int(mo.group(1), 16)), val)
        m[name] = val
    for name, val in re.findall(r"\(define-fun\s+(\S+)\s+\(\)\s+Int\s+(\(- \d+\)|\d+)\)", output):
        m[name] = -int(val[3:-1]) if val.startswith("(") else int(val)
    return m


def ws_class_re():
    """SMT regex for the characters str.strip() removes (str.isspace)"""
    cps = [c for c in range(0x30000) if chr(c).isspace()]
    # merge into ranges
    rs = []
    for c in cps:
        if rs and rs[-1][1] == c - 1:
            rs[-1][1] = c
        else:
            rs.append([c, c])
    parts = []
    for a, b in rs:
        if a == b:
            parts.append("(str.to_re \"\\u{%x}\")" % a)
        else:
            parts.append("(re.range \"\\u{%x}\" \"\\u{%x}\")" % (a, b))
    return "(re.union " + " ".join(parts) + ")", cps
