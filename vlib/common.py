"""Job scheduling, replay, known findings, evidence, exit codes."""
import hashlib
import importlib
import json
import os
import random
import subprocess
import sys
import tempfile
import time
from concurrent.futures import ThreadPoolExecutor

VERIF = os.path.dirname(os.path.dirname(os.path.abspath(__file__)))
REPO = os.environ.get("VERIF_REPO", "/repo")
PY = os.path.join(VERIF, ".venv", "bin", "python")
NPROC = int(os.environ.get("VERIF_NPROC", "16"))

EXIT_OK, EXIT_VIOLATION, EXIT_INCONCLUSIVE = 0, 1, 2


def setup_paths():
    for p in (VERIF, REPO, os.path.join(REPO, "appnotes")):
        if p not in sys.path:
            sys.path.insert(0, p)


def src_hash(paths):
    h = hashlib.sha256()
    for p in paths:
        try:
            h.update(open(os.path.join(REPO, p), "rb").read())
        except OSError:
            h.update(b"missing:" + p.encode())
    return h.hexdigest()[:16]


def _run_worker(modname, job, replay=False):
    timeout = job.get("timeout", 300)
    with tempfile.NamedTemporaryFile("w", suffix=".json", delete=False) as f:
        json.dump(job, f)
        jf = f.name
    cmd = [PY, "-m", "vlib.worker", modname, "--replay" if replay else "--job", jf]
    t0 = time.time()
    env = dict(os.environ, PYTHONHASHSEED="0", PYTHONDONTWRITEBYTECODE="1")
    try:
        p = subprocess.run(cmd, cwd=VERIF, capture_output=True, text=True, timeout=timeout + 30, env=env)
        out = p.stdout
        res = None
        for line in out.splitlines():
            if line.startswith("RESULT "):
                res = json.loads(line[7:])
        if res is None:
            res = dict(verdict="inconclusive", state="WORKER_CRASH", message=(p.stderr or out)[-1500:])
    except subprocess.TimeoutExpired:
        res = dict(verdict="inconclusive", state="TIMEOUT", message=f"worker exceeded {timeout + 30}s")
    finally:
        try:
            os.unlink(jf)
        except OSError:
            pass
    res.setdefault("wall_s", round(time.time() - t0, 2))
    res["job"] = job.get("name")
    return res


def run_jobs(modname, jobs, nproc=NPROC):
    # longest first
    order = sorted(range(len(jobs)), key=lambda i: -jobs[i].get("cost", 1))
    results = [None] * len(jobs)
    with ThreadPoolExecutor(max_workers=nproc) as ex:
        futs = {ex.submit(_run_worker, modname, jobs[i]): i for i in order}
        for fut, i in futs.items():
            results[i] = fut.result()
    return results


def load_known():
    p = os.path.join(VERIF, "known_findings.json")
    if os.path.exists(p):
        return json.load(open(p))
    return {"findings": [], "fixed": []}


def main_check(pid, tier):
    """generic driver for one property"""
    setup_paths()
    seed = int(os.environ.get("VERIF_SEED", "0"))
    modname = "props." + pid.lower()
    mod = importlib.import_module(modname)
    t0 = time.time()
    jobs = mod.jobs(tier, seed)
    random.Random(seed).shuffle(jobs)
    only = os.environ.get("VERIF_ONLY")
    if only:
        jobs = [j for j in jobs if only in j["name"]]
    results = run_jobs(modname, jobs)
    known = load_known()
    known_sigs = {f["signature"]: f for f in known.get("findings", []) if f["property"] == pid}
    violations, known_hits, inconclusive = [], [], []
    held = 0
    os.makedirs(os.path.join(VERIF, "replays", pid), exist_ok=True)
    for job, res in zip(jobs, results):
        expect = job.get("expect", "held")
        v = res.get("verdict")
        if expect == "violated":
            # vacuity twin / seeded-wrong reference: must be refuted by the solver
            if v == "violated":
                res["verdict"] = "twin_ok"
                held += 1
            else:
                res["verdict"] = "inconclusive"
                res["message"] = "VACUITY: twin expected to be violated but got %s; %s" % (v, res.get("message", ""))
                inconclusive.append(res)
            continue
        if v == "held":
            held += 1
        elif v == "violated":
            # replay on the unstubbed real code
            wit = dict(job=job, witness=res.get("witness"), signature=res.get("signature"), message=res.get("message"))
            hsh = hashlib.sha256(json.dumps(wit, sort_keys=True, default=str).encode()).hexdigest()[:12]
            path = os.path.join(VERIF, "replays", pid, hsh + ".json")
            json.dump(wit, open(path, "w"), indent=1, default=str)
            rj = dict(job, replay_file=path, timeout=job.get("replay_timeout", 300))
            rr = _run_worker(modname, dict(rj, witness=res.get("witness"), signature=res.get("signature")), replay=True)
            res["replay"] = rr
            if rr.get("reproduced"):
                sig = rr.get("signature") or res.get("signature") or "unspecified"
                res["signature"] = sig
                if sig in known_sigs:
                    known_hits.append((sig, known_sigs[sig], path))
                else:
                    violations.append((res, path))
            else:
                res["verdict"] = "inconclusive"
                res["message"] = "counterexample did not reproduce on the real code: " + str(rr.get("detail", rr.get("message", "")))[-600:] + " | " + str(res.get("message", ""))[:300]
                inconclusive.append(res)
        else:
            inconclusive.append(res)
    wall = time.time() - t0
    seen = set()
    for sig, f, path in known_hits:
        if sig not in seen:
            seen.add(sig)
            print(f"KNOWN-FINDING: property={pid} {f.get('description', sig)} [{sig}]")
    for res, path in violations:
        print(f"VIOLATION property={pid} replay={path}")
        print("  job=%s signature=%s %s" % (res.get("job"), res.get("signature"), str(res.get("message", ""))[:300]))
    for res in inconclusive:
        print("INCONCLUSIVE job=%s state=%s %s" % (res.get("job"), res.get("state"), str(res.get("message", ""))[:400].replace("\n", " | ")))
    write_evidence(pid, tier, seed, mod, jobs, results, wall, len(violations), len(known_hits))
    nq = sum(r.get("queries", 0) or 0 for r in results)
    st = sum(r.get("solver_s", 0) or 0 for r in results)
    print(f"{pid} {tier}: jobs={len(jobs)} held={held} violations={len(violations)} known={len(seen)} inconclusive={len(inconclusive)} solver_queries={nq} solver_s={st:.1f} wall={wall:.1f}s")
    if violations:
        return EXIT_VIOLATION
    if inconclusive:
        return EXIT_INCONCLUSIVE
    return EXIT_OK


def write_evidence(pid, tier, seed, mod, jobs, results, wall, nviol, nknown):
    meta = getattr(mod, "META", {})
    decided = [r for r in results if r.get("verdict") in ("held", "twin_ok", "violated")]
    nontrivial = set()
    for j, r in zip(jobs, results):
        if r.get("verdict") in ("held", "twin_ok", "violated") and (r.get("queries", 0) or 0) > 0 and (r.get("symbolic_dims", 1) or 0) > 0:
            nontrivial.add(j["name"])
    samples = []
    for j, r in list(zip(jobs, results))[:6]:
        samples.append(
            dict(
                job=j["name"],
                params={k: v for k, v in j.items() if k not in ("name", "timeout", "cost")},
                verdict=r.get("verdict"),
                state=r.get("state"),
                solver_queries=r.get("queries"),
                solver_s=r.get("solver_s"),
                paths=r.get("paths"),
                wall_s=r.get("wall_s"),
                note=str(r.get("message", ""))[:200],
            )
        )
    per_job = [
        dict(job=j["name"], levels=r.get("levels"), verdict=r.get("verdict"), state=r.get("state"), queries=r.get("queries"), solver_s=r.get("solver_s"), realisations=r.get("realisations"), paths=r.get("paths"), wall_s=r.get("wall_s"), expect=j.get("expect", "held"))
        for j, r in zip(jobs, results)
    ]
    files = meta.get("files", [])
    cov = dict(
        explanation=meta.get("explanation", ""),
        evaluations=len(jobs),
        distinct_nontrivial=len(nontrivial),
        rule=meta.get("rule", "one evaluation = one (shape, query) job decided by the solver over all values of its symbolic inputs; non-trivial = decided (held / twin refuted / violated) with >= 1 solver query on a path that had symbolic inputs live; names are distinct"),
        samples=samples,
        functions_encoded=meta.get("functions", []),
        source_hash=src_hash(files),
        source_files=files,
        stubs=meta.get("stubs", []),
        bounds=meta.get("bounds", {}).get(tier, meta.get("bounds", {})),
        outside_claim=meta.get("outside", []),
        solver_queries=sum(r.get("queries", 0) or 0 for r in results),
        solver_seconds=round(sum(r.get("solver_s", 0) or 0 for r in results), 2),
        paths=sum(r.get("paths", 0) or 0 for r in results),
        realisations=sum(r.get("realisations", 0) or 0 for r in results),
        jobs_decided=len(decided),
        jobs_inconclusive=len(results) - len(decided),
        known_findings_hit=nknown,
        per_job=per_job,
        trusted_base=meta.get("trusted_base", ["z3", "CrossHair proxy semantics", "harness reference models"]),
        exhaustive=False,
    )
    ev = dict(
        property_id=pid,
        tier=tier,
        seed=seed,
        level=meta.get("level", "other"),
        coverage=cov,
        assumptions=meta.get("assumptions", []),
        wall_s=round(wall, 2),
        violations=nviol,
    )
    if meta.get("level") == "model_checking":
        cov["states"] = max(1, sum(r.get("states", 0) or 0 for r in results))
        cov["transitions"] = max(1, sum(r.get("transitions", 0) or 0 for r in results))
        cov["traces_validated_against_impl"] = sum(r.get("traces_validated", 0) or 0 for r in results)
    evdir = os.environ.get("VERIF_EVIDENCE_DIR") or os.path.join(VERIF, "evidence")
    os.makedirs(evdir, exist_ok=True)
    json.dump(ev, open(os.path.join(evdir, pid + ".json"), "w"), indent=1, default=str)


def global_snapshot(modules, classes=()):
    """repr of the library's module-level and class-level mutable state (dicts, lists, sets and the
    set of attribute names): used to assert that an operation leaves global state unchanged and that
    nothing is cached on a class between calls"""
    out = []
    for mod in modules:
        for k, v in sorted(vars(mod).items()):
            if k.startswith("__"):
                continue
            if isinstance(v, (dict, list, set)):
                out.append((mod.__name__, k, repr(v)))
            elif isinstance(v, type) and getattr(v, "__module__", None) == mod.__name__:
                classes = tuple(classes) + (v,)
    seen = set()
    for c in classes:
        if c in seen:
            continue
        seen.add(c)
        names = sorted(k for k in vars(c) if not k.startswith("__"))
        out.append((c.__module__, c.__name__, "attrs", tuple(names)))
        for k in names:
            v = vars(c)[k]
            if isinstance(v, (dict, list, set)):
                try:
                    out.append((c.__module__, c.__name__, k, repr(sorted(v.items(), key=repr)) if isinstance(v, dict) else repr(v)))
                except Exception:
                    out.append((c.__module__, c.__name__, k, "unrepr"))
    return out
