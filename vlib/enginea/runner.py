"""Run one harness function under CrossHair (library mode) and classify."""
import time
import traceback

from . import sym


class Witness(Exception):
    pass


WITNESSES = []  # filled by harnesses on a failing path (realised inputs)


def _jsonable(r):
    if isinstance(r, (bytes, bytearray)):
        return {"hex": bytes(r).hex()}
    if isinstance(r, dict):
        return {str(k): _jsonable(v) for k, v in r.items()}
    if isinstance(r, (list, tuple)):
        return [_jsonable(v) for v in r]
    return r


def record_witness(**kw):
    """call on the failing path, with tracing on; values are realised"""
    out = {}
    for k, v in kw.items():
        out[k] = _jsonable(sym.realize(v))
    WITNESSES.append(out)


PATHS = [0]
TRACKED = {}


def track(vals):
    """register the harness's symbolic inputs: if the code under test raises, they are realised
    into the witness before the exception propagates (EXEC_ERR counterexamples need inputs too)"""
    TRACKED.clear()
    TRACKED.update(vals)



def run(body, per_condition_timeout=120.0, per_path_timeout=60.0, max_iterations=None):
    PATHS[0] = 0
    # the body must not carry a contract of its own: CrossHair would treat it
    # as an internal contract and *ignore* paths on which it fails
    assert not (body.__doc__ and "post:" in body.__doc__), "harness bodies must not have PEP316 docstrings"

    def harness() -> bool:
        """
        post: _ == True
        """
        PATHS[0] += 1
        TRACKED.clear()
        try:
            r = body()
        except Exception as e:
            if TRACKED and not isinstance(e, sym.AssumptionInfeasible):
                try:
                    record_witness(exception="%s: %s" % (type(e).__name__, str(e)[:100]), **TRACKED)
                except Exception:
                    pass
            raise
        if not sym.path_feasible():
            raise sym.AssumptionInfeasible("path condition unsatisfiable at the end of the path (vacuous path)")
        return r

    return _run(harness, per_condition_timeout, per_path_timeout, max_iterations)


def _run(harness, per_condition_timeout=120.0, per_path_timeout=60.0, max_iterations=None):
    """harness: def h(n: int) -> bool with docstring  pre: n == 0 / post: _ == True
    returns dict(verdict=held|violated|inconclusive, state=..., message=..., stats)"""
    from crosshair.core_and_libs import analyze_function, run_checkables, AnalysisKind
    from crosshair.options import AnalysisOptionSet
    from crosshair.statespace import MessageType

    sym.install_stats()
    sym.STATS.update(queries=0, solver_s=0.0, realisations=0)
    del WITNESSES[:]
    kw = dict(
        analysis_kind=[AnalysisKind.PEP316],
        per_condition_timeout=per_condition_timeout,
        per_path_timeout=per_path_timeout,
        report_all=True,
    )
    if max_iterations:
        kw["max_iterations"] = max_iterations
    opts = AnalysisOptionSet(**kw)
    t0 = time.time()
    try:
        msgs = list(run_checkables(analyze_function(harness, opts)))
    except Exception as e:  # harness error
        return dict(verdict="inconclusive", state="HARNESS_ERROR", message=traceback.format_exc()[-3000:], wall_s=time.time() - t0, **sym.STATS)
    wall = time.time() - t0
    states = [m.state for m in msgs]
    text = "; ".join(f"{m.state.name}: {m.message}" for m in msgs)[:1500]
    if any(s in (MessageType.POST_FAIL, MessageType.POST_ERR, MessageType.EXEC_ERR) for s in states):
        verdict = "violated"
    elif states and all(s == MessageType.CONFIRMED for s in states):
        verdict = "held"
    else:
        verdict = "inconclusive"
    return dict(
        verdict=verdict,
        state=",".join(s.name for s in states) or "NONE",
        message=text,
        wall_s=round(wall, 2),
        witness=(WITNESSES[-1] if WITNESSES else None),
        paths=PATHS[0],
        **{k: (round(v, 3) if isinstance(v, float) else v) for k, v in sym.STATS.items()},
    )
