"""Engine A stubs.  All are installed in the checking process only, through
the library's own plug-in registry or module attributes; /repo is not edited.

S-io   : io.BytesIO -> sym.PyBytesIO  (before bec2format import)
S-cbc  : pyaes.aes.AESModeOfOperationCBC -> UF block cipher with per-(key,prev)
         bijection axioms instantiated at each application
S-crc  : bec2file.crc8404B -> fold of an uninterpreted 16-bit step function
S-sha  : bec2file.sha256 -> UF to 32 bytes
S-ecc  : register_PrivateEccKey / register_PublicEccKey -> UF key pairs with
         commutative DH
S-rng  : register_random_bytes -> fresh symbolic bytes, logged
"""
import z3

from . import sym
from .sym import NoTracing, context_statespace, SymbolicInt

I = z3.IntSort()

_CE = [z3.Function(f"CE{j}", I, I, I, I) for j in range(16)]
_CD = [z3.Function(f"CD{j}", I, I, I, I) for j in range(16)]
_CRCSTEP = z3.Function("CRCSTEP", I, I, I)
_SHA = [z3.Function(f"SHA{j}", I, I, I) for j in range(32)]

LOG = {"cbc_enc": 0, "cbc_dec": 0, "rng": [], "keygen": [], "mac": []}


def load_repo(real_adapter=True):
    """import bec2format (+ the appnotes plug-in, which registers the real
    adapter, ecdsa and os.urandom) with the pure-Python BytesIO in place"""
    from vlib import common

    common.setup_paths()
    sym.install_pybytesio()
    import bec2format  # noqa

    if real_adapter:
        import register_crypto_plugin  # noqa  (appnotes on sys.path)
    return bec2format


def _fresh_bytes_from(exprs_fn, n):
    """n output bytes given fn j -> z3 expr; range asserted"""
    with NoTracing():
        sp = context_statespace()
        outs = []
        for j in range(n):
            e = exprs_fn(j)
            o = z3.Int(f"o{sp.uniq()}")
            sp.add(o == e)
            sp.add(z3.And(o >= 0, o < 256))
            outs.append(o)
        return outs


def _to_bytes(exprs):
    with NoTracing():
        vals = [SymbolicInt(e) for e in exprs]
    return bytes(vals)


def install_uf_cbc():
    from register_crypto_plugin.pyaes import aes

    class UFCBC(aes.AESBlockModeOfOperation):
        """block-at-a-time CBC API of pyaes over an uninterpreted cipher"""

        name = "UF-CBC"

        def __init__(self, key, iv=None):
            if len(key) not in (16, 24, 32):
                raise ValueError("Invalid key size")
            if iv is not None and len(iv) != 16:
                raise ValueError("initialization vector must be 16 bytes")
            self._k = sym.pack_expr(sym.byte_exprs(key)) * 100 + len(key)
            self._last = sym.pack_expr(sym.byte_exprs(iv)) if iv is not None else z3.IntVal(0)

        def encrypt(self, plaintext):
            if len(plaintext) != 16:
                raise ValueError("plaintext block must be 16 bytes")
            xs = sym.byte_exprs(plaintext)
            x = sym.pack_expr(xs)
            k, last = self._k, self._last
            outs = _fresh_bytes_from(lambda j: _CE[j](k, last, x), 16)
            with NoTracing():
                c = sym.pack_expr(outs)
                sp = context_statespace()
                for j in range(16):
                    sp.add(_CD[j](k, last, c) == xs[j])
            self._last = c
            LOG["cbc_enc"] += 1
            return _to_bytes(outs)

        def decrypt(self, ciphertext):
            if len(ciphertext) != 16:
                raise ValueError("ciphertext block must be 16 bytes")
            cs = sym.byte_exprs(ciphertext)
            c = sym.pack_expr(cs)
            k, last = self._k, self._last
            outs = _fresh_bytes_from(lambda j: _CD[j](k, last, c), 16)
            with NoTracing():
                x = sym.pack_expr(outs)
                sp = context_statespace()
                for j in range(16):
                    sp.add(_CE[j](k, last, x) == cs[j])
            self._last = c
            LOG["cbc_dec"] += 1
            return _to_bytes(outs)

    aes.AESModeOfOperationCBC = UFCBC
    return UFCBC


def model_cbc_encrypt(key, iv, data):
    """independent model of CBC over the same UF (for reference oracles):
    data length must be a multiple of 16"""
    k = sym.pack_expr(sym.byte_exprs(key)) * 100 + len(key)
    last = sym.pack_expr(sym.byte_exprs(iv)) if iv is not None else z3.IntVal(0)
    out = b""
    for p in range(0, len(data), 16):
        xs = sym.byte_exprs(data[p : p + 16])
        x = sym.pack_expr(xs)
        outs = _fresh_bytes_from(lambda j, x=x, last=last: _CE[j](k, last, x), 16)
        with NoTracing():
            c = sym.pack_expr(outs)
            sp = context_statespace()
            for j in range(16):
                sp.add(_CD[j](k, last, c) == xs[j])
        last = c
        out += _to_bytes(outs)
    return out


def model_cbc_decrypt(key, iv, data):
    k = sym.pack_expr(sym.byte_exprs(key)) * 100 + len(key)
    last = sym.pack_expr(sym.byte_exprs(iv)) if iv is not None else z3.IntVal(0)
    out = b""
    for p in range(0, len(data), 16):
        cs = sym.byte_exprs(data[p : p + 16])
        c = sym.pack_expr(cs)
        outs = _fresh_bytes_from(lambda j, c=c, last=last: _CD[j](k, last, c), 16)
        with NoTracing():
            x = sym.pack_expr(outs)
            sp = context_statespace()
            for j in range(16):
                sp.add(_CE[j](k, last, x) == cs[j])
        last = c
        out += _to_bytes(outs)
    return out


CRC_FACTS = True


def uf_crc(data, start_value=0xFFFF):
    cur = sym.expr_of(start_value)
    for e in sym.byte_exprs(data):
        with NoTracing():
            sp = context_statespace()
            o = z3.Int(f"crc{sp.uniq()}")
            sp.add(o == _CRCSTEP(cur, e))
            sp.add(z3.And(o >= 0, o < 65536))
            if CRC_FACTS:
                # lemma proved on the real crc8404B by C15 (job fact:one-byte-nonzero):
                # the CRC of a one-byte string from start value FFFF is never 0
                sp.add(z3.Implies(cur == 65535, o != 0))
            cur = o
    return sym.from_expr(cur)


def install_uf_crc():
    from bec2format import bec2file

    bec2file.crc8404B = uf_crc


class _UFSha:
    def __init__(self, data=b""):
        self._d = data

    def update(self, d):
        self._d = self._d + d

    def digest(self):
        x = sym.pack_expr(sym.byte_exprs(self._d))
        n = z3.IntVal(len(self._d))
        outs = _fresh_bytes_from(lambda j: _SHA[j](n, x), 32)
        return _to_bytes(outs)


def install_uf_sha():
    from bec2format import bec2file

    bec2file.sha256 = _UFSha


def model_sha(data):
    return _UFSha(data).digest()


# --- ECC -------------------------------------------------------------------
_PUB = [z3.Function(f"PUB{j}", I, I) for j in range(64)]
_PRIVOF = z3.Function("PRIVOF", I, I)
_PAIR = z3.Function("PAIR", I, I, I)
_DH = [z3.Function(f"DH{j}", I, I) for j in range(32)]


def install_uf_ecc():
    from bec2format import crypto

    class UFPublic(crypto.PublicEccKey):
        def __init__(self, raw):
            self.raw = raw  # 64 bytes (symbolic)

        @classmethod
        def create_from_der_fmt(cls, der_fmt):
            hdr = bytes.fromhex("3059301306072A8648CE3D020106082A8648CE3D03010703420004")
            if len(der_fmt) != 27 + 64 or der_fmt[:27] != hdr:
                raise ValueError("malformed DER public key (stub)")
            return cls(der_fmt[27:])

        def to_der_fmt(self):
            hdr = bytes.fromhex("3059301306072A8648CE3D020106082A8648CE3D03010703420004")
            return hdr + self.raw

    class UFPrivate(crypto.PrivateEccKey):
        def __init__(self, ident):
            self.ident = ident  # z3 Int expr

        @classmethod
        def generate(cls):
            with NoTracing():
                sp = context_statespace()
                a = z3.Int(f"priv{sp.uniq()}")
                sp.add(a >= 1)
            k = cls(a)
            LOG["keygen"].append(k)
            return k

        @property
        def public_key(self):
            a = self.ident
            outs = _fresh_bytes_from(lambda j: _PUB[j](a), 64)
            with NoTracing():
                context_statespace().add(_PRIVOF(sym.pack_expr(outs)) == a)
            return UFPublic(_to_bytes(outs))

        def compute_dh_secret(self, public_key):
            a = self.ident
            pr = sym.pack_expr(sym.byte_exprs(public_key.raw))
            b = _PRIVOF(pr)
            with NoTracing():
                context_statespace().add(_PAIR(a, b) == _PAIR(b, a))
            s = _PAIR(a, b)
            outs = _fresh_bytes_from(lambda j: _DH[j](s), 32)
            return _to_bytes(outs)

    crypto.register_PublicEccKey(UFPublic)
    crypto.register_PrivateEccKey(UFPrivate)
    return UFPrivate, UFPublic


def install_sym_rng():
    from bec2format import crypto

    def rng(num_bytes):
        b = sym.sym_bytes("rng%d_" % len(LOG["rng"]), num_bytes)
        LOG["rng"].append(b)
        return b

    crypto.register_random_bytes(rng)
    return rng


# --- text layer bypass -------------------------------------------------------
class Carrier:
    """stands in for the text stream: carries (comments, binary) between the
    real write_file and read_file bodies; the hex/comment text layer itself is
    decided by the Engine C lemmas of C01"""

    def __init__(self):
        self.comments = None
        self.raw = None
        self.writes = 0


def install_text_bypass():
    from bec2format import bf3file as bf
    from bec2format.bytes_reader import BytesReader

    def write_bf3_format(bf3file, comments, rawdata):
        bf3file.writes += 1
        bf3file.comments = dict(comments)
        bf3file.raw = rawdata

    def parse_bf3_file(cls, bf3file):
        return BytesReader(bf3file.raw, "BF3 files Binary Data"), dict(bf3file.comments or {})

    bf.Bf3File.write_bf3_format = staticmethod(write_bf3_format)
    bf.Bf3File.parse_bf3_file = classmethod(parse_bf3_file)


def reset_log():
    LOG["cbc_enc"] = 0
    LOG["cbc_dec"] = 0
    LOG["rng"] = []
    LOG["keygen"] = []
    LOG["mac"] = []


# --- ideal MAC (C04/C05) -----------------------------------------------------
class MacOracle:
    """Wraps AES128Proxy.mac (the real adapter over S-cbc) with the two
    cryptographic assumptions C04/C05 rest on:
      A1  distinct (key, iv, zero-padded data) MACed by the writer have distinct MACs
      A2  a MAC the reader computes for an input the writer never MACed differs
          from every 16-byte window of the file under test (unforgeability);
          imposed as A2': it differs from each window already in its first byte
    The zero-padding equivalence of the real MAC is kept (queries are compared
    after padding), so prefix cuts that only drop 00 bytes are decided honestly."""

    mode = "writer"
    tokens = False  # True: MAC values are concrete distinct tokens (fallback level, see C04)
    near = None  # tokens mode only: a never-MACed input gets a NEAR-collision of the writer's MAC (adversarial valuation)
    log = []  # (key, iv, padded, out)
    windows_of = None
    reader_fresh = 0
    reader_matched = 0

    @classmethod
    def reset(cls):
        cls.mode = "writer"
        cls.log = []
        cls.windows_of = None
        cls.near = None
        cls.reader_fresh = 0
        cls.reader_matched = 0


def install_ideal_mac():
    import register_crypto_plugin as plug

    Proxy = plug.AES128Proxy
    real_mac = Proxy.mac

    def mac(self, data):
        out = real_mac(self, data)
        padded = data + bytes(-len(data) % 16)
        iv = self._iv if self._iv is not None else bytes(16)
        q = (self._key, iv, padded)
        M = MacOracle
        if M.tokens:
            import hashlib

            for (k2, iv2, p2, out2) in M.log:
                if len(p2) == len(padded) and len(k2) == len(self._key):
                    same = z3.And(sym.bytes_equal_expr(k2, self._key), sym.bytes_equal_expr(iv2, iv), sym.bytes_equal_expr(p2, padded))
                    if sym.fork(same):
                        return out2
            tok = hashlib.sha256(b"verif-mac-token-%d" % len(M.log)).digest()[:16]
            if M.mode == "reader" and M.near is not None:
                # adversarial MAC valuation: the MAC of the damaged data differs from the authentic MAC of
                # the same slot (same iv, same padded length) only as `near` says - still a different MAC,
                # so a reader that compares all 16 bytes must reject
                base = None
                for (k2, iv2, p2, out2) in M.log:
                    if len(p2) == len(padded) and z3.is_true(z3.simplify(sym.bytes_equal_expr(iv2, iv))) and isinstance(out2, bytes):
                        base = out2
                if base is not None:
                    t = bytearray(base)
                    for pos_, delta in M.near:
                        t[pos_] ^= delta
                    M.log.append((self._key, iv, padded, bytes(t)))
                    return bytes(t)
            if M.mode == "reader" and M.windows_of is not None:
                fe = sym.byte_exprs(M.windows_of)
                cons = []
                with NoTracing():
                    for s in range(0, len(fe) - 15):
                        terms, differs = [], False
                        for j in range(16):
                            x = fe[s + j]
                            if z3.is_int_value(x):
                                if x.as_long() != tok[j]:
                                    differs = True
                                    break
                            else:
                                terms.append(x != tok[j])
                        if differs:
                            continue
                        if not terms:
                            raise sym.AssumptionInfeasible("fresh MAC token already present in the file")
                        cons.append(z3.Or(terms))
                if cons:
                    sym.assume(z3.And(cons), check=True)
            M.log.append((self._key, iv, padded, tok))
            return tok
        if M.mode == "writer":
            for (k2, iv2, p2, out2) in M.log:
                if len(p2) == len(padded) and len(k2) == len(self._key):
                    same = z3.And(sym.bytes_equal_expr(k2, self._key), sym.bytes_equal_expr(iv2, iv), sym.bytes_equal_expr(p2, padded))
                    differ = z3.Not(sym.bytes_equal_expr(out2, out))
                    sym.assume(z3.Or(same, differ), check=True)
            M.log.append((self._key, iv, padded, out))
            return out
        for (k2, iv2, p2, out2) in M.log:
            if len(p2) == len(padded) and len(k2) == len(self._key):
                same = z3.And(sym.bytes_equal_expr(k2, self._key), sym.bytes_equal_expr(iv2, iv), sym.bytes_equal_expr(p2, padded))
                if sym.fork(same):
                    M.reader_matched += 1
                    return out2
        M.reader_fresh += 1
        oe = sym.byte_exprs(out)
        if M.windows_of is not None:
            fe = sym.byte_exprs(M.windows_of)
            # A2 in the strengthened form A2': differs already in the first byte (the code
            # under test only compares whole MACs, so outcomes are the same; this keeps
            # byte-wise comparisons on one path)
            with NoTracing():
                cons = [fe[s] != oe[0] for s in range(0, len(fe) - 15)]
            if cons:
                sym.assume(z3.And(cons), check=True)
        return out

    Proxy.mac = mac
    return MacOracle


def install_forking_authmap():
    """Bec2File.AUTH_BLOCK_CLS_MAP[tag] with a symbolic tag makes CrossHair build a
    symbolic *type*, which it cannot call.  Same mapping, but the lookup forks on
    the (three) keys so that the class is concrete on every path."""
    from bec2format import bec2file as b2

    class ForkingMap(dict):
        def __getitem__(self, k):
            for c in list(dict.keys(self)):
                if k == c:
                    return dict.__getitem__(self, c)
            raise KeyError(k)

    b2.Bec2File.AUTH_BLOCK_CLS_MAP = ForkingMap(b2.Bec2File.AUTH_BLOCK_CLS_MAP)
