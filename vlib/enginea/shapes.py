"""Shape catalogues shared by the container properties (C01..C06).
A shape fixes what must be concrete for the symbolic executor (lengths,
counts, tag ids); everything else is a solver variable."""
import random

BOUNDARY_LENS = [1, 15, 16, 17, 31, 32, 33, 40, 41]


def comp(plen, tags=(), enc=False):
    return {"plen": plen, "tags": [list(t) for t in tags], "enc": enc}


def bf3_shapes(tier, seed=0):
    S = []
    for L in BOUNDARY_LENS:
        S.append([comp(L, [(0xC1, 1)])])
    S.append([])
    S.append([comp(16, [])])
    S.append([comp(5, [(0x00, 0), (0xFF, 3)])])
    S.append([comp(5, [(0xFF, 3), (0x00, 0)])])
    S.append([comp(3, [(0xC3, 1)]), comp(17, [(0xC1, 1), (0xC8, 3)])])
    S.append([comp(1, []), comp(16, [(0xC4, 2)]), comp(33, [(0xC9, 0)])])
    S.append([comp(4, [(0xC9, 208)])])  # directory-entry limit: 45 + 2 + 208 = 255
    S.append([comp(4, [(0xC1, 100), (0xC2, 106)])])  # limit with two tags
    S.append([comp(257, [])])  # payload and MAC input longer than 256 bytes (k*256 + 1)
    if tier == "thorough":
        for L in range(1, 49):
            if L not in BOUNDARY_LENS:
                S.append([comp(L, [(0xC1, 1)])])
        for L in (47, 48, 49, 64, 65):
            S.append([comp(L, [])])
        rnd = random.Random(seed)
        ids = [0x00, 0xC1, 0xC2, 0xC3, 0xC4, 0xC5, 0xC6, 0xC7, 0xC8, 0xC9, 0xFF]
        for _ in range(24):
            n = rnd.choice([1, 2, 2, 3])
            sh = []
            for _ in range(n):
                k = rnd.choice([0, 1, 2, 2])
                tags = [(t, rnd.choice([0, 1, 3])) for t in rnd.sample(ids, k)]
                # the ENC tag with value 02 selects decryption on read; plain shapes avoid id C2 with 1-byte values
                tags = [(t, (l if t != 0xC2 else 0)) for t, l in tags]
                sh.append(comp(rnd.choice(BOUNDARY_LENS + list(range(1, 49))), tags))
            S.append(sh)
    return S


def shape_name(sh):
    if not sh:
        return "empty"
    return "+".join("p%d%s[%s]" % (c["plen"], "e" if c.get("enc") else "", ",".join("%02X:%d" % (t, l) for t, l in c["tags"])) for c in sh)
