"""Engine A primitives: symbolic inputs created directly in CrossHair's state
space, a pure-Python BytesIO (so that the reader code is executed symbolically
instead of realising the buffer at the C boundary), statistics hooks."""
import io
import time
import z3

from crosshair.statespace import context_statespace
from crosshair.tracers import NoTracing, ResumedTracing
from crosshair.libimpl.builtinslib import SymbolicInt

# --------------------------------------------------------------------------
# statistics: count solver queries and realisations

STATS = {"queries": 0, "solver_s": 0.0, "realisations": 0}
_orig_check = z3.Solver.check


def _counting_check(self, *a, **k):
    t0 = time.time()
    try:
        return _orig_check(self, *a, **k)
    finally:
        STATS["queries"] += 1
        STATS["solver_s"] += time.time() - t0


def install_stats():
    if z3.Solver.check is not _counting_check:
        z3.Solver.check = _counting_check
    try:
        from crosshair import statespace as _ss

        orig = _ss.StateSpace.find_model_value
        if not getattr(orig, "_verif_wrapped", False):

            def fmv(self, expr):
                STATS["realisations"] += 1
                return orig(self, expr)

            fmv._verif_wrapped = True
            _ss.StateSpace.find_model_value = fmv
    except Exception:
        pass


# --------------------------------------------------------------------------
# symbolic values


def sym_int(name, lo, hi):
    """fresh symbolic int with lo <= v < hi asserted (not branched on)"""
    with NoTracing():
        sp = context_statespace()
        v = z3.Int(f"{name}_{sp.uniq()}")
        sp.add(z3.And(v >= lo, v < hi))
        return SymbolicInt(v)


def sym_ints(name, n, lo=0, hi=256):
    return [sym_int(f"{name}{i}", lo, hi) for i in range(n)]


def sym_bytes(name, n):
    """concrete length, symbolic content"""
    return bytes(sym_ints(name, n))


def is_symbolic(x):
    with NoTracing():
        return isinstance(x, SymbolicInt) or not isinstance(x, (int, bytes, str, bool, type(None)))


def expr_of(x):
    """z3 expression of an int-like (SymbolicInt or int)"""
    with NoTracing():
        if isinstance(x, SymbolicInt):
            return x.var
        if hasattr(x, "var"):
            return x.var
        return z3.IntVal(int(x))


class AssumptionInfeasible(Exception):
    """an assumption added by a stub/harness contradicts the current path: the
    path would be vacuous.  Surfaces as a harness error (inconclusive)."""


def assume(cond_expr, check=False):
    with NoTracing():
        sp = context_statespace()
        if check:
            STATS["queries"] += 0
            if not sp.is_possible(cond_expr):
                raise AssumptionInfeasible(str(cond_expr)[:200])
        sp.add(cond_expr)


def path_feasible():
    """safety net against vacuous paths: is the path condition still satisfiable?"""
    with NoTracing():
        sp = context_statespace()
        return sp.is_possible(z3.BoolVal(True))


def fork(cond_expr):
    """python bool of a z3 Bool: one solver-decided branch (both sides explored
    when both are feasible)"""
    with NoTracing():
        v = SymbolicInt(z3.If(cond_expr, z3.IntVal(1), z3.IntVal(0)))
    return v == 1


def bytes_equal_expr(a, b):
    """z3 Bool: two equal-length byte strings are equal"""
    ea, eb = byte_exprs(a), byte_exprs(b)
    assert len(ea) == len(eb)
    with NoTracing():
        terms = [x == y for x, y in zip(ea, eb) if not (z3.is_int_value(x) and z3.is_int_value(y) and x.as_long() == y.as_long())]
        for x, y in zip(ea, eb):
            if z3.is_int_value(x) and z3.is_int_value(y) and x.as_long() != y.as_long():
                return z3.BoolVal(False)
        return z3.And(terms) if terms else z3.BoolVal(True)


def from_expr(e):
    with NoTracing():
        return SymbolicInt(e)


def byte_exprs(b):
    """list of z3 Int expressions for the bytes of b (tracing on: indexing
    yields SymbolicInt or int)"""
    out = []
    for i in range(len(b)):
        out.append(expr_of(b[i]))
    return out


def pack_expr(exprs):
    acc = z3.IntVal(0)
    for e in exprs:
        acc = acc * 256 + e
    return acc


def realize(x):
    from crosshair.core import deep_realize

    return deep_realize(x)


# --------------------------------------------------------------------------
# pure-Python BytesIO


class PyBytesIO:
    """Subset of io.BytesIO used by bec2format (read/seek/tell/getvalue).
    Symbolic sizes/positions are case-split over the finite buffer."""

    def __init__(self, initial_bytes=b""):
        self._buf = initial_bytes
        self._pos = 0

    def _split(self, n, hi):
        # returns a concrete int in [0, hi] equal to min(n, hi) for n >= 0
        with NoTracing():
            concrete = type(n) is int
        if concrete:
            return min(n, hi)
        for c in range(hi):
            if n == c:
                return c
        return hi

    def read(self, size=-1):
        rem = len(self._buf) - self._pos
        if rem < 0:
            rem = 0
        if size is None or size < 0:
            n = rem
        else:
            n = self._split(size, rem)
        data = self._buf[self._pos : self._pos + n]
        self._pos += n
        return data

    def tell(self):
        return self._pos

    def seek(self, pos, whence=0):
        if whence == 1:
            pos = self._pos + pos
        elif whence == 2:
            pos = len(self._buf) + pos
        if pos < 0:
            raise ValueError("negative seek value %r" % (pos,))
        # positions beyond the end behave like len+1 for our purposes
        self._pos = self._split(pos, len(self._buf) + 1)
        return self._pos

    def getvalue(self):
        return self._buf

    def write(self, *a, **k):
        raise io.UnsupportedOperation("write")

    def close(self):
        pass


def selftest_pybytesio():
    import random

    rnd = random.Random(1)
    RealBytesIO = _REAL_BYTESIO
    for _ in range(300):
        buf = bytes(rnd.randrange(256) for _ in range(rnd.randrange(0, 12)))
        a, b = RealBytesIO(buf), PyBytesIO(buf)
        for _ in range(6):
            op = rnd.randrange(3)
            if op == 0:
                n = rnd.randrange(0, 15)
                assert a.read(n) == b.read(n)
            elif op == 1:
                p = rnd.randrange(0, 15)
                assert a.seek(p) == b.seek(p) or p > len(buf)
            assert a.tell() == b.tell() or b.tell() == len(buf) + 1
    return True


_REAL_BYTESIO = io.BytesIO


def install_pybytesio():
    """must run before bec2format is imported"""
    import sys

    assert "bec2format.bytes_reader" not in sys.modules
    io.BytesIO = PyBytesIO


def uninstall_pybytesio():
    io.BytesIO = _REAL_BYTESIO
