"""Subprocess entry: run one job (or one replay) of a property module."""
import importlib
import json
import sys
import traceback

from vlib import common


def main():
    modname, mode, jf = sys.argv[1], sys.argv[2], sys.argv[3]
    job = json.load(open(jf))
    common.setup_paths()
    try:
        mod = importlib.import_module(modname)
        if mode == "--replay":
            res = mod.replay(job)
        else:
            res = mod.run_job(job)
    except BaseException as e:  # noqa
        res = dict(verdict="inconclusive", state="WORKER_EXCEPTION", message=traceback.format_exc()[-2000:], reproduced=False)
    print("RESULT " + json.dumps(res, default=str))


if __name__ == "__main__":
    main()
