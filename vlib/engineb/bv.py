"""Engine B: exact-integer bit-vector proxies that drive the real Python code.

A BV is a z3 signed bit-vector term together with an exact (or safely
over-approximated) integer interval [lo, hi].  Every operator computes its
result at a width that can hold the result interval and both operands
(sign-extended), so Python's unbounded-int semantics are preserved: there is
no wrap-around to assume away.  Comparisons give Bool proxies whose __bool__
asks the path explorer (decision prefix + re-execution, both sides checked
for feasibility)."""
import math
import time
import z3

STATS = {"queries": 0, "solver_s": 0.0, "paths": 0}


def width_for(lo, hi):
    w = 1
    while not (-(1 << (w - 1)) <= lo and hi <= (1 << (w - 1)) - 1):
        w += 1
    return w


def _bits(n):
    return max(1, int(n).bit_length())


class BV:
    __slots__ = ("t", "lo", "hi")

    def __init__(self, t, lo, hi):
        self.t, self.lo, self.hi = t, lo, hi

    # -- construction ------------------------------------------------------
    @staticmethod
    def const(v):
        v = int(v)
        return BV(z3.BitVecVal(v, width_for(v, v)), v, v)

    @staticmethod
    def var(name, lo, hi):
        w = width_for(lo, hi)
        x = z3.BitVec(name, w)
        CURRENT.assume(z3.And(x >= lo, x <= hi))
        return BV(x, lo, hi)

    @staticmethod
    def lift(x):
        if isinstance(x, BV):
            return x
        if isinstance(x, BoolP):
            return BV(z3.If(x.e, z3.BitVecVal(1, 2), z3.BitVecVal(0, 2)), 0, 1)
        if isinstance(x, (int, bool)):
            return BV.const(int(x))
        raise TypeError("cannot lift %r" % (x,))

    def width(self):
        return self.t.size()

    def ext(self, w):
        k = w - self.t.size()
        if k == 0:
            return self.t
        if k < 0:
            return z3.Extract(w - 1, 0, self.t)
        return z3.SignExt(k, self.t)

    def is_const(self):
        return self.lo == self.hi

    def _mk(self, other, fn, lo, hi):
        o = BV.lift(other)
        w = max(width_for(lo, hi), self.width(), o.width())
        t = fn(self.ext(w), o.ext(w))
        rw = width_for(lo, hi)
        if rw < w:
            t = z3.Extract(rw - 1, 0, t)
        return BV(t, lo, hi)

    # -- arithmetic --------------------------------------------------------
    def __add__(self, o):
        o = BV.lift(o)
        return self._mk(o, lambda a, b: a + b, self.lo + o.lo, self.hi + o.hi)

    __radd__ = __add__

    def __sub__(self, o):
        o = BV.lift(o)
        return self._mk(o, lambda a, b: a - b, self.lo - o.hi, self.hi - o.lo)

    def __rsub__(self, o):
        return BV.lift(o).__sub__(self)

    def __neg__(self):
        return BV.const(0) - self

    def __pos__(self):
        return self

    def __mul__(self, o):
        o = BV.lift(o)
        c = [self.lo * o.lo, self.lo * o.hi, self.hi * o.lo, self.hi * o.hi]
        lo, hi = min(c), max(c)
        # multiplication must not overflow at the working width
        w = max(width_for(lo, hi), self.width(), o.width())
        t = self.ext(w) * o.ext(w)
        rw = width_for(lo, hi)
        if rw < w:
            t = z3.Extract(rw - 1, 0, t)
        return BV(t, lo, hi)

    __rmul__ = __mul__

    def __pow__(self, k, mod=None):
        assert isinstance(k, int) and 0 <= k <= 8
        r = BV.const(1)
        for _ in range(k):
            r = r * self
        return r if mod is None else r % mod

    def bit_length(self):
        """int.bit_length of a non-negative proxy: binary search by path decisions"""
        if self.is_const():
            return abs(self.lo).bit_length()
        if self.lo < 0 and self < 0:
            raise Inconclusive("bit_length of a negative proxy")
        lo, hi = 0, max(self.hi, 1).bit_length()
        while lo < hi:
            mid = (lo + hi) // 2
            if self < (1 << mid):
                hi = mid
            else:
                lo = mid + 1
        return lo

    def __rpow__(self, base):
        # base ** proxy for a small exponent range: decided value by value
        if self.is_const():
            return base ** self.lo
        if self.lo < 0:
            raise TypeError("symbolic exponent may be negative")
        lo, hi = self.lo, self.hi
        while lo < hi:  # binary search by path decisions (the path condition usually pins a small range)
            mid = (lo + hi) // 2
            if self <= mid:
                hi = mid
            else:
                lo = mid + 1
        if lo > 4096:
            raise TypeError("symbolic exponent too large")
        return base ** lo

    def __lshift__(self, k):
        assert isinstance(k, int) and k >= 0
        return self * (1 << k)

    def __rshift__(self, k):
        assert isinstance(k, int) and k >= 0
        lo, hi = self.lo >> k, self.hi >> k
        w = self.width()
        t = self.t >> k  # arithmetic shift on signed bit-vectors (z3 '>>' is ashr)
        rw = width_for(lo, hi)
        if rw < w:
            t = z3.Extract(rw - 1, 0, t)
        return BV(t, lo, hi)

    def _bitop(self, o, fn, kind):
        o = BV.lift(o)
        if kind == "and":
            if o.lo >= 0 and self.lo >= 0:
                lo, hi = 0, min(self.hi, o.hi)
            elif o.lo >= 0:
                lo, hi = 0, o.hi
            elif self.lo >= 0:
                lo, hi = 0, self.hi
            else:
                k = max(_bits(self.lo), _bits(self.hi), _bits(o.lo), _bits(o.hi))
                lo, hi = -(1 << k), (1 << k) - 1
        else:
            k = max(_bits(self.lo), _bits(self.hi), _bits(o.lo), _bits(o.hi))
            if self.lo >= 0 and o.lo >= 0:
                lo, hi = 0, (1 << k) - 1
            else:
                lo, hi = -(1 << k), (1 << k) - 1
        return self._mk(o, fn, lo, hi)

    def __and__(self, o):
        return self._bitop(o, lambda a, b: a & b, "and")

    __rand__ = __and__

    def __or__(self, o):
        return self._bitop(o, lambda a, b: a | b, "or")

    __ror__ = __or__

    def __xor__(self, o):
        return self._bitop(o, lambda a, b: a ^ b, "xor")

    __rxor__ = __xor__

    def __rmod__(self, o):
        return BV.lift(o).__mod__(self)

    def __mod__(self, p):
        p = BV.lift(p)
        if not p.is_const():
            # symbolic modulus: zero raises as in Python, a negative one is outside the fragment
            if p == 0:
                raise ZeroDivisionError("integer modulo by zero")
            if p.lo < 0 and p < 0:
                raise Inconclusive("negative symbolic modulus")
            w = max(self.width(), p.width()) + 1
            a, mm = self.ext(w), p.ext(w)
            r = z3.SRem(a, mm)
            t = z3.If(r < 0, r + mm, r)
            hi = max(p.hi - 1, 0)
            rw = width_for(0, hi)
            return BV(z3.Extract(rw - 1, 0, t) if rw < w else t, 0, hi)
        assert p.lo > 0, "modulus must be positive"
        m = p.lo
        if self.lo >= 0 and self.hi < m:
            return self
        w = max(self.width(), width_for(0, m) + 1)
        a = self.ext(w)
        mm = z3.BitVecVal(m, w)
        r = z3.SRem(a, mm)
        t = z3.If(r < 0, r + mm, r)
        rw = width_for(0, m - 1)
        return BV(z3.Extract(rw - 1, 0, t), 0, m - 1)

    def __floordiv__(self, p):
        p = BV.lift(p)
        assert p.is_const() and p.lo > 0
        m = p.lo
        lo, hi = self.lo // m, self.hi // m
        w = max(self.width(), width_for(0, m) + 1)
        a = self.ext(w)
        mm = z3.BitVecVal(m, w)
        q = a / mm  # signed division truncates toward zero
        r = z3.SRem(a, mm)
        t = z3.If(r < 0, q - 1, q)
        rw = width_for(lo, hi)
        return BV(z3.Extract(rw - 1, 0, t) if rw < w else t, lo, hi)

    def __index__(self):
        if self.is_const():
            return self.lo
        raise TypeError("symbolic BV used as a concrete index")

    def __int__(self):
        return self.__index__()

    def __hash__(self):
        if self.is_const():
            return hash(self.lo)
        raise TypeError("symbolic BV is unhashable")

    # -- comparisons -------------------------------------------------------
    def _cmp(self, o, fn):
        o = BV.lift(o)
        w = max(self.width(), o.width())
        return BoolP(fn(self.ext(w), o.ext(w)))

    def __eq__(self, o):
        if not isinstance(o, (BV, int, bool, BoolP)):
            return False
        return self._cmp(o, lambda a, b: a == b)

    def __ne__(self, o):
        if not isinstance(o, (BV, int, bool, BoolP)):
            return True
        return self._cmp(o, lambda a, b: a != b)

    # ordering against a float (e.g. `s > order / 2` under true division): exact, through floor/ceil of the float
    def __lt__(self, o):
        if isinstance(o, float):
            return self._cmp(math.ceil(o), lambda a, b: a < b)
        return self._cmp(o, lambda a, b: a < b)

    def __le__(self, o):
        if isinstance(o, float):
            return self._cmp(math.floor(o), lambda a, b: a <= b)
        return self._cmp(o, lambda a, b: a <= b)

    def __gt__(self, o):
        if isinstance(o, float):
            return self._cmp(math.floor(o), lambda a, b: a > b)
        return self._cmp(o, lambda a, b: a > b)

    def __ge__(self, o):
        if isinstance(o, float):
            return self._cmp(math.ceil(o), lambda a, b: a >= b)
        return self._cmp(o, lambda a, b: a >= b)

    def __bool__(self):
        return bool(self != 0)

    def __repr__(self):
        return "BV[%d..%d]/%d" % (self.lo, self.hi, self.width())

    def int_expr(self):
        """z3 Int view (for cross-checks)"""
        return z3.BV2Int(self.t, is_signed=True)


class BoolP:
    __slots__ = ("e",)

    def __init__(self, e):
        self.e = e

    def __bool__(self):
        return CURRENT.decide(self.e)

    def __and__(self, o):
        return BoolP(z3.And(self.e, o.e if isinstance(o, BoolP) else z3.BoolVal(bool(o))))

    def __or__(self, o):
        return BoolP(z3.Or(self.e, o.e if isinstance(o, BoolP) else z3.BoolVal(bool(o))))

    def __invert__(self):
        return BoolP(z3.Not(self.e))


class Explorer:
    """DFS over branch decisions of a deterministic function of proxies."""

    def __init__(self, timeout_ms=60000, unknown_is_feasible=False):
        self.timeout_ms = timeout_ms
        # over-approximation: a branch whose feasibility the solver cannot decide is explored
        # (sound for validity queries: an infeasible path only adds a vacuous obligation)
        self.unknown_is_feasible = unknown_is_feasible
        self.prefix = []
        self.pos = 0
        self.pc = []  # path condition (incl. variable range assumptions)
        self.work = []

    def assume(self, e):
        self.pc.append(e)

    def _sat(self, extra):
        s = z3.Solver()
        s.set("timeout", self.timeout_ms)
        s.add(*self.pc)
        s.add(extra)
        t0 = time.time()
        r = s.check()
        STATS["queries"] += 1
        STATS["solver_s"] += time.time() - t0
        return r

    def decide(self, e):
        e = z3.simplify(e)
        if z3.is_true(e):
            return True
        if z3.is_false(e):
            return False
        if self.pos < len(self.prefix):
            choice = self.prefix[self.pos]
        else:
            rt = self._sat(e)
            rf = self._sat(z3.Not(e))
            if rt == z3.unknown or rf == z3.unknown:
                if not self.unknown_is_feasible:
                    raise Inconclusive("branch feasibility unknown")
                rt = z3.sat if rt == z3.unknown else rt
                rf = z3.sat if rf == z3.unknown else rf
            if rt == z3.sat and rf == z3.sat:
                choice = True
                self.work.append(self.prefix[: self.pos] + [False])
            elif rt == z3.sat:
                choice = True
            elif rf == z3.sat:
                choice = False
            else:
                raise Infeasible()
            self.prefix = self.prefix[: self.pos] + [choice]
        self.pos += 1
        self.pc.append(e if choice else z3.Not(e))
        return choice

    def explore(self, fn, max_paths=100000):
        """fn() -> value; returns list of (path_condition, value).  fn creates its
        variables through BV.var (range assumptions join the path condition)."""
        global CURRENT
        out = []
        self.work = [[]]
        while self.work:
            self.prefix = self.work.pop()
            self.pos = 0
            self.pc = []
            CURRENT = self
            try:
                v = fn()
            except Infeasible:
                continue
            out.append((list(self.pc), v))
            STATS["paths"] += 1
            if len(out) > max_paths:
                raise Inconclusive("too many paths")
        return out


class Inconclusive(Exception):
    pass


class Infeasible(Exception):
    pass


CURRENT = Explorer()


def check(pc, claim, timeout_ms=600000):
    """is `claim` valid under the path condition?  returns ('unsat'|'sat'|'unknown', model)"""
    s = z3.Solver()
    s.set("timeout", timeout_ms)
    s.add(*pc)
    s.add(z3.Not(claim))
    t0 = time.time()
    r = s.check()
    STATS["queries"] += 1
    STATS["solver_s"] += time.time() - t0
    return str(r), (s.model() if r == z3.sat else None)


def model_int(m, bv):
    v = m.eval(bv.t, model_completion=True)
    n = v.as_signed_long()
    return n


class IntP:
    """mathematical-integer proxy (z3 Int) for kernels where bit-blasting is
    hopeless (256-bit field) but code and specification differ only by
    polynomial rearrangement"""

    __slots__ = ("e",)

    def __init__(self, e):
        self.e = e

    @staticmethod
    def var(name, lo=None, hi=None):
        x = z3.Int(name)
        if lo is not None:
            CURRENT.assume(x >= lo)
        if hi is not None:
            CURRENT.assume(x <= hi)
        return IntP(x)

    @staticmethod
    def lift(x):
        return x if isinstance(x, IntP) else IntP(z3.IntVal(int(x)))

    def __add__(self, o):
        return IntP(self.e + IntP.lift(o).e)

    __radd__ = __add__

    def __sub__(self, o):
        return IntP(self.e - IntP.lift(o).e)

    def __rsub__(self, o):
        return IntP(IntP.lift(o).e - self.e)

    def __mul__(self, o):
        return IntP(self.e * IntP.lift(o).e)

    __rmul__ = __mul__

    def __neg__(self):
        return IntP(-self.e)

    def __pow__(self, k):
        r = IntP.lift(1)
        for _ in range(k):
            r = r * self
        return r

    def __mod__(self, m):
        m = IntP.lift(m)
        return IntP(self.e % m.e)  # z3 Int mod is non-negative for a positive modulus, as Python's

    def _c(self, o, f):
        return BoolP(f(self.e, IntP.lift(o).e))

    def __eq__(self, o):
        return self._c(o, lambda a, b: a == b)

    def __ne__(self, o):
        return self._c(o, lambda a, b: a != b)

    def __lt__(self, o):
        return self._c(o, lambda a, b: a < b)

    def __le__(self, o):
        return self._c(o, lambda a, b: a <= b)

    def __gt__(self, o):
        return self._c(o, lambda a, b: a > b)

    def __ge__(self, o):
        return self._c(o, lambda a, b: a >= b)

    def __bool__(self):
        return bool(self != 0)

    __hash__ = None
