"""Engine B add-on: byte strings of bit-vector proxies and an import hook that makes codec modules executable on them.

The codecs of python-ecdsa (der.py, util.py, ellipticcurve.py, keys.py) convert between integers and byte strings through
C-level helpers ('%x' % n, binascii.hexlify/unhexlify, int(text, 16), bytes(x)).  A symbolic engine can only concretise
there.  The hook below loads the *current* source of the package under test and rewrites exactly those call sites

    a % b                  -> __vmod__(a, b)        (text formatting of a proxy becomes a HexText)
    int(x, 16)             -> __vint__(x, 16)       (HexOf(bytes) -> exact big-endian bit-vector)
    binascii.hexlify(x)    -> __vhexlify__(x)
    binascii.unhexlify(x)  -> __vunhexlify__(x)
    bytes(x), bytearray(x) -> __vbytes__(x)
    X.join(parts)          -> __vjoin__(X, parts)
    bin(x)                 -> __vbin__(x)          (only len(bin(x)) is defined on a proxy)

into calls of helpers which behave exactly like the originals on concrete values and build the exact term on proxies.
Everything else - every branch, slice, comparison, length computation - is the real code."""
import ast
import binascii
import builtins
import importlib.machinery
import importlib.util
import os
import re
import sys

import z3

from . import bv

BV, BoolP = bv.BV, bv.BoolP


def _is_sym(x):
    return isinstance(x, BV) and not x.is_const()


def _conc(x):
    return x.lo if isinstance(x, BV) else x


class SymBytes:
    """immutable byte string of concrete length whose elements are ints or BV proxies (0..255)"""

    __slots__ = ("items",)

    def __init__(self, items):
        self.items = [(_conc(i) if not _is_sym(i) else i) for i in items]

    # -- sequence protocol ----------------------------------------------------
    def __len__(self):
        return len(self.items)

    def __iter__(self):
        return iter(self.items)

    def __bool__(self):
        return len(self.items) > 0

    def __getitem__(self, i):
        if isinstance(i, slice):
            if any(isinstance(x, BV) for x in (i.start, i.stop, i.step)):
                i = slice(_bound(i.start, len(self.items)), _bound(i.stop, len(self.items)), None if i.step is None else _index(i.step))
            return mk(self.items[i])
        return self.items[_index(i)]

    def __add__(self, o):
        if isinstance(o, (bytes, bytearray, SymBytes)):
            return mk(self.items + list(o))
        return NotImplemented

    def __radd__(self, o):
        if isinstance(o, (bytes, bytearray)):
            return mk(list(o) + self.items)
        return NotImplemented

    def __mul__(self, k):
        return mk(self.items * k)

    def _eq(self, o):
        if not isinstance(o, (bytes, bytearray, SymBytes)):
            return False
        o = list(o)
        if len(o) != len(self.items):
            return False
        conj = []
        for a, b in zip(self.items, o):
            if not isinstance(a, BV) and not isinstance(b, BV):
                if a != b:
                    return False
                continue
            conj.append((BV.lift(a) == BV.lift(b)).e)
        if not conj:
            return True
        return BoolP(z3.And(*conj))

    def __eq__(self, o):
        r = self._eq(o)
        return bool(r) if isinstance(r, BoolP) else r

    def __ne__(self, o):
        return not self.__eq__(o)

    def __hash__(self):
        raise TypeError("symbolic byte string is unhashable")

    def startswith(self, p):
        return len(self) >= len(p) and self[: len(p)] == p

    def endswith(self, p):
        return len(self) >= len(p) and (len(p) == 0 or self[-len(p):] == p)

    def __repr__(self):
        return "SymBytes(%s)" % " ".join(("%02x" % i) if not isinstance(i, BV) else "??" for i in self.items)

    def hex(self):
        return repr(self)


def _index(i):
    """a proxy used as an index/slice bound: decided value by value (the bounds of its interval are small here)"""
    if not isinstance(i, BV):
        return i
    if i.is_const():
        return i.lo
    if i.hi - i.lo > 70000:
        raise bv.Inconclusive("symbolic index with a large range")
    # binary search over the interval by path decisions
    lo, hi = i.lo, i.hi
    while lo < hi:
        mid = (lo + hi) // 2
        if i <= mid:
            hi = mid
        else:
            lo = mid + 1
    return lo


def _bound(x, n):
    """slice bound: every value >= n selects the same elements as n (values <= -n the same as -n)"""
    if x is None or not isinstance(x, BV):
        return x
    if x.is_const():
        return x.lo
    if x.hi >= n and x >= n:
        return n
    if x.lo <= -n and x <= -n:
        return -n
    lo, hi = max(x.lo, -n + 1), min(x.hi, n - 1)
    while lo < hi:
        mid = (lo + hi) // 2
        if x <= mid:
            hi = mid
        else:
            lo = mid + 1
    return lo


def mk(items):
    items = list(items)
    if not any(_is_sym(x) for x in items):
        return bytes(_conc(x) for x in items)
    return SymBytes(items)


def sym_bytes(name, n):
    return SymBytes([BV.var("%s%d" % (name, i), 0, 255) for i in range(n)])


def be_value(items):
    """exact big-endian value of a byte sequence (one concatenation, no arithmetic)"""
    items = list(items)
    if not items:
        return BV.const(0)
    if not any(_is_sym(b) for b in items):
        return BV.const(int.from_bytes(bytes(_conc(b) for b in items), "big"))
    parts = [z3.BitVecVal(0, 1)] + [(z3.Extract(7, 0, b.ext(9)) if isinstance(b, BV) else z3.BitVecVal(b, 8)) for b in items]
    return BV(z3.Concat(*parts), 0, 256 ** len(items) - 1)


def byte_of(n, i):
    """byte i (0 = least significant) of a non-negative proxy: an extraction, no arithmetic"""
    if not _is_sym(n):
        return (_conc(n) >> (8 * i)) & 0xFF
    w = max(n.width(), 8 * i + 9)
    return BV(z3.ZeroExt(1, z3.Extract(8 * i + 7, 8 * i, n.ext(w))), 0, 255)


def concretize(x, model):
    if isinstance(x, SymBytes):
        return bytes(concretize(i, model) for i in x.items)
    if isinstance(x, BV):
        return bv.model_int(model, x) if model is not None else x.lo
    if isinstance(x, (list, tuple)):
        return type(x)(concretize(i, model) for i in x)
    return x


class HexOf:
    """binascii.hexlify(symbolic bytes): only int(., 16) is defined on it"""

    def __init__(self, data):
        self.data = data


class HexText:
    """text of `fmt % n` for fmt in {'%x', '%0Nx'} and a proxy n >= 0; behaves as str and (after encode) as bytes"""

    def __init__(self, n, mindigits=1, lead=0):
        self.n, self.lead = n, lead
        if n.lo < 0:
            if (n < 0):
                raise bv.Inconclusive("negative number formatted as hex")
        lo, hi = mindigits, max(mindigits, (max(n.hi, 1).bit_length() + 3) // 4)
        while lo < hi:  # number of hex digits: binary search by path decisions
            mid = (lo + hi) // 2
            if n < (1 << (4 * mid)):
                hi = mid
            else:
                lo = mid + 1
        self.digits = lo

    def encode(self, *a):
        return self

    def __len__(self):
        return self.digits + self.lead

    def __radd__(self, o):
        if o in (b"0", "0"):
            h = HexText.__new__(HexText)
            h.n, h.digits, h.lead = self.n, self.digits, self.lead + 1
            return h
        return NotImplemented


def v_mod(a, b):
    if isinstance(a, str) and isinstance(b, BV):
        if not _is_sym(b):
            return a % b.lo
        if a == "%x":
            return HexText(b)
        if len(a) > 3 and a.startswith("%0") and a.endswith("x") and a[2:-1].isdigit():
            return HexText(b, int(a[2:-1]))
        if " " in a:
            return re.sub(r"%[-0-9.]*[a-zA-Z]", "?", a)  # message text (exceptions, warnings): the value is elided
        raise bv.Inconclusive("unsupported format of a proxy: %r" % a)
    if isinstance(a, str) and isinstance(b, tuple) and any(isinstance(x, BV) for x in b):
        return a % tuple(("?" if _is_sym(x) else _conc(x)) for x in b)
    return a % b


def v_int(x, *a):
    if isinstance(x, HexOf):
        if a != (16,):
            raise bv.Inconclusive("int() of hex text with base %r" % (a,))
        if len(x.data) == 0:
            return int(b"", 16)  # the real ValueError
        return be_value(x.data)
    if isinstance(x, BV):
        return x
    return int(x, *a)


def v_hexlify(x):
    if isinstance(x, SymBytes):
        return HexOf(x)
    return binascii.hexlify(x)


def v_unhexlify(x):
    if isinstance(x, HexText):
        total = x.digits + x.lead
        if total % 2:
            return binascii.unhexlify(b"0" * total)  # the real binascii.Error (odd length)
        k = total // 2
        return mk([byte_of(x.n, k - 1 - i) for i in range(k)])
    return binascii.unhexlify(x)


def v_bytes(cls):
    def f(*a, **k):
        if len(a) == 1 and isinstance(a[0], SymBytes):
            return a[0]
        if len(a) == 1 and isinstance(a[0], (list, tuple)) and any(isinstance(i, BV) for i in a[0]):
            return mk(a[0])
        return cls(*a, **k)

    return f


class BinText:
    """bin(proxy): only its length is defined (the idiom len(bin(x)) - 2 for the bit length)"""

    def __init__(self, n):
        self.n = n

    def __len__(self):
        return 2 + max(self.n.bit_length(), 1)


def v_bin(x):
    if _is_sym(x):
        if x.lo < 0 and (x < 0):
            raise bv.Inconclusive("bin() of a negative proxy")
        return BinText(x)
    return bin(_conc(x))


def v_join(sep, parts):
    if isinstance(sep, (bytes, bytearray)):
        parts = list(parts)
        if any(isinstance(p_, SymBytes) for p_ in parts):
            out = []
            for i, p_ in enumerate(parts):
                if i:
                    out += list(sep)
                out += list(p_)
            return mk(out)
        return sep.join(parts)
    return sep.join(parts)


def _bv_to_bytes(self, length=1, byteorder="big", signed=False):
    if self.is_const():
        return self.lo.to_bytes(length, byteorder, signed=signed)
    if signed:
        raise bv.Inconclusive("signed to_bytes of a proxy")
    if not (self >= 0 and self < (1 << (8 * length))):
        raise OverflowError("int too big to convert")
    out = [byte_of(self, length - 1 - i) for i in range(length)]
    return mk(out if byteorder == "big" else out[::-1])


BV.to_bytes = _bv_to_bytes


class Rewriter(ast.NodeTransformer):
    def visit_BinOp(self, node):
        self.generic_visit(node)
        if isinstance(node.op, ast.Mod):
            return ast.copy_location(ast.Call(ast.Name("__vmod__", ast.Load()), [node.left, node.right], []), node)
        return node

    def visit_Call(self, node):
        self.generic_visit(node)
        f = node.func
        if isinstance(f, ast.Name) and f.id == "int" and len(node.args) == 2 and not node.keywords:
            node.func = ast.copy_location(ast.Name("__vint__", ast.Load()), f)
        elif isinstance(f, ast.Name) and f.id == "bin" and len(node.args) == 1 and not node.keywords:
            node.func = ast.copy_location(ast.Name("__vbin__", ast.Load()), f)
        elif isinstance(f, ast.Name) and f.id in ("bytes", "bytearray") and len(node.args) == 1 and not node.keywords:
            node.func = ast.copy_location(ast.Name("__v%s__" % f.id, ast.Load()), f)
        elif isinstance(f, ast.Attribute) and f.attr == "join" and len(node.args) == 1 and not node.keywords:
            return ast.copy_location(ast.Call(ast.Name("__vjoin__", ast.Load()), [f.value, node.args[0]], []), node)
        elif isinstance(f, ast.Attribute) and isinstance(f.value, ast.Name) and f.value.id == "binascii" and f.attr in ("hexlify", "unhexlify"):
            node.func = ast.copy_location(ast.Name("__v%s__" % f.attr, ast.Load()), f)
        return node


class RewritingLoader(importlib.machinery.SourceFileLoader):
    def get_code(self, fullname):
        path = self.get_filename(fullname)
        tree = Rewriter().visit(ast.parse(self.get_data(path), path))
        ast.fix_missing_locations(tree)
        return compile(tree, path, "exec", dont_inherit=True)


class Finder:
    """meta-path finder: modules selected by `want(fullname)` are loaded from their current source below `root_dir`
    through the rewriter (no byte-code cache)"""

    def __init__(self, root_dir, want):
        self.root, self.want = root_dir, want

    def find_spec(self, fullname, path=None, target=None):
        if not self.want(fullname):
            return None
        rel = fullname.replace(".", os.sep)
        cand = os.path.join(self.root, rel, "__init__.py")
        if os.path.exists(cand):
            return importlib.util.spec_from_file_location(fullname, cand, loader=RewritingLoader(fullname, cand), submodule_search_locations=[os.path.dirname(cand)])
        cand = os.path.join(self.root, rel + ".py")
        if os.path.exists(cand):
            return importlib.util.spec_from_file_location(fullname, cand, loader=RewritingLoader(fullname, cand))
        return None


def install(root_dir, want):
    builtins.__vmod__ = v_mod
    builtins.__vint__ = v_int
    builtins.__vhexlify__ = v_hexlify
    builtins.__vunhexlify__ = v_unhexlify
    builtins.__vbytes__ = v_bytes(bytes)
    builtins.__vbytearray__ = v_bytes(bytearray)
    builtins.__vjoin__ = v_join
    builtins.__vbin__ = v_bin
    for m in list(sys.modules):
        if want(m):
            del sys.modules[m]
    sys.meta_path.insert(0, Finder(root_dir, want))
