import sys
from vlib import common

if __name__ == "__main__":
    pid = sys.argv[1].upper()
    tier = "quick"
    args = sys.argv[2:]
    if "--tier" in args:
        tier = args[args.index("--tier") + 1]
    if "--replay" in args:
        import importlib, json
        common.setup_paths()
        path = args[args.index("--replay") + 1]
        rec = json.load(open(path))
        job = dict(rec.get("job", {}), witness=rec.get("witness"), signature=rec.get("signature"))
        rr = common._run_worker("props." + pid.lower(), job, replay=True)
        print(json.dumps(rr, indent=1))
        sys.exit(1 if rr.get("reproduced") else 0)
    sys.exit(common.main_check(pid, tier))
