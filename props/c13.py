"""C13 - BF2 import preserves firmware bytes and rejects what BF3 cannot represent."""
import io
import itertools

PROPERTY = "C13"
FILES = ["bec2format/bf3file.py", "bec2format/hwcids.py", "bec2format/bytes_reader.py"]
META = dict(
    level="other",
    engines="A",
    files=FILES,
    technique="bounded symbolic execution (CrossHair/z3) of the real bf2_unpack_payload / bf2_convert_payload on line lists whose data bytes are symbolic and whose addresses follow an enumerated catalogue of contiguity patterns, against an independent 'maximal contiguous extents in file order' model; the section state machine bf2_import with the line parser replaced by a symbolic object list; pfid2_filter_to_str against the filter-byte semantics under a symbolic truth assignment",
    level_text="Solver verdict over all data bytes (and raw line bytes) for every contiguity pattern of up to 3 (quick) / 4 (thorough) lines (contiguous / gap of 1 / gap of a page / overlap / backwards between consecutive lines; first line at 0, 1, 0xFFFE; page crossing through the tag-type delta): every line's bytes are used exactly once in the extents, BLOB is accepted iff one extent at 0 and equals the concatenation, BF2COMPATIBLE = concatenated raw lines, MEMORYIMAGE = (address, length, data)*; bf2_import produces the tags the instructions state for each mapped tag type and rejects gaps, unknown tag types and a missing Bf3Update marker; the platform-filter text is logically equivalent to the filter bytes for every flag assignment.",
    level_note="Addresses are concrete per pattern (the unpacker keys a dict by extent start; a hashed symbolic value would be enumerated), data are symbolic. Line tokenising (startswith/split/hex2bin) is outside: C01's hex lemmas cover hex2bin's alphabet only. Images beyond 4 lines (the property's 200 000-byte images) are outside. Trusted: z3, CrossHair proxies, the extents model in this file.",
    explanation="Bounded symbolic verification with CrossHair (z3) of Bf3File.bf2_unpack_payload, bf2_convert_payload, bf2_import (+ exec_bf2instrs, annotations, is_known_tagtype), pfid2_filter_to_str.",
    functions=["Bf3File.bf2_unpack_payload", "Bf3File.bf2_convert_payload", "Bf3File.bf2_import", "Bf3File.exec_bf2instrs", "Bf3File.annotations", "is_known_tagtype", "pfid2_filter_to_str"],
    stubs=["S-io", "parse_bf2_file replaced by a symbolic object list (bf2_import jobs)"],
    assumptions=[],
    bounds=dict(quick="1..3 lines, payload lengths 1..3 (+ one 250-byte line), 5 relations x 3 first addresses; import shapes: one section per mapped tag type, two sections, ignored 0x34/0x48 sections, with/without Bf3Update, gap, unknown tag type; paged images (one data group per 64 KiB page, last two lines symbolic at the boundary of the last page of the 200000-byte range) for families 0x35, 0x39, 0x40, 0x70, 0x84 (0x3D with its two documented pages: thorough); filters with up to 3 entries", thorough="1..4 lines"),
    outside=["text tokenising of real BF2 files", "images longer than 4 lines", "overlapping lines that start a second extent at an already used start address (reported if accepted silently)"],
)

REL = ("contig", "gap1", "gappage", "overlap", "back")
FIRST = (0, 1, 0xFFFE)


def patterns(k):
    out = []
    for first in FIRST:
        for rels in itertools.product(REL, repeat=k - 1):
            out.append((first, list(rels)))
    return out


def addresses(first, rels, lens):
    adr = [first]
    for r, L in zip(rels, lens):
        end = adr[-1] + L
        if r == "contig":
            adr.append(end)
        elif r == "gap1":
            adr.append(end + 1)
        elif r == "gappage":
            adr.append(end + 0x10000)
        elif r == "overlap":
            adr.append(max(0, end - 1))
        else:
            adr.append(max(0, adr[-1] - 1))
    return adr


def jobs(tier, seed):
    J = []
    maxk = 3 if tier == "quick" else 4
    for k in range(1, maxk + 1):
        pats = patterns(k)
        chunk = 15
        for a in range(0, len(pats), chunk):
            J.append(dict(name="unpack:%dlines:%d-%d" % (k, a, min(len(pats), a + chunk) - 1), kind="unpack", k=k, pats=pats[a : a + chunk], timeout=1500, cost=10 * k * chunk))
    J.append(dict(name="unpack:longline", kind="unpack", k=2, pats=[(0, ["contig"]), (0, ["gap1"])], lens=[250, 2], timeout=900, cost=200))
    for shape in ("one-main", "one-loader", "one-peripheral-sm4200", "one-ble", "ble-filter-2", "ble-filter-3", "ble-plain-filter", "two-sections", "crc-then-no-crc", "ignored-prepare", "no-marker", "gap-in-blob", "unknown-tagtype", "unmapped-known-tagtype"):
        J.append(dict(name="import:%s" % shape, kind="import", shape=shape, timeout=900, cost=100))
    # images reaching the last 64 KiB page of the property's 200000-byte range (tag type = base + page), per mapped family
    for base in (0x35, 0x39, 0x40, 0x70, 0x84) + ((0x3D,) if tier != "quick" else ()):
        J.append(dict(name="import:paged:0x%02X" % base, kind="import", shape="paged:0x%02X" % base, timeout=1500, cost=300))
    for n in (1, 2, 3):
        J.append(dict(name="pfid2:%dentries" % n, kind="pfid2", n=n, timeout=900, cost=50 * n))
    J.append(dict(name="pfid2:malformed", kind="pfid2bad", timeout=600, cost=20))
    J.append(dict(name="unpack:twin", kind="unpack", k=1, pats=[(0, [])], twin=True, expect="violated", timeout=300))
    return J


def mk_line(bf, tagtype_base, adr, payload, raw):
    """Bf2BinLine for absolute address adr relative to the section's first tag type"""
    page, off = adr >> 16, adr & 0xFFFF
    fwtag = bytes([len(payload) + 2, off >> 8, off & 0xFF]) + payload
    return bf.Bf2BinLine(tagtype_base + page, 0, fwtag, raw)


# documented families: first tag type -> (BF3 type, hardware id name, format, interface); the number of pages checked is the
# 200000-byte range of the property (4 pages) except where the documentation reserves fewer tag types
PAGED_FAMILIES = {0x35: (1, "SM4200", 0, 5), 0x39: (1, "BGM12X", 0, None), 0x40: (1, "SM6300", 0, 5), 0x3D: (1, "PN5180", 0, 5), 0x70: (0, None, 2, None), 0x84: (2, None, 2, None)}
PAGED_PAGES = {0x3D: 2}


def paged_section(bf, base, mkbytes):
    """data group whose image ends in the last page: 250-byte concrete filler lines from address 0 (blob sections must be
    contiguous), then a line ending at the page boundary and one starting the last page (both from mkbytes)"""
    pages = PAGED_PAGES.get(base, 4)
    last = (pages - 1) << 16
    lines, pays, adr, i = [], [], 0, 0
    blobfmt = PAGED_FAMILIES[base][2] == 0
    if blobfmt:
        while adr < last - 2:
            n = min(250, last - 2 - adr)
            p = bytes((adr + k) * 7 & 0xFF for k in range(n))
            lines.append(mk_line(bf, base, adr, p, bytes([i & 0xFF, 1, 2, 3])))
            pays.append(p)
            adr += n
            i += 1
    else:
        # raw-line sections need no contiguity: one line at address 0 (the section's family is that of its first line)
        p = mkbytes("sp0_", 2)
        lines.append(mk_line(bf, base, 0, p, mkbytes("rawp0_", 4)))
        pays.append(p)
        adr = last - 2
    tail = []
    for nm in ("pa", "pb"):
        p = mkbytes("s%s_" % nm, 2)
        lines.append(mk_line(bf, base, adr, p, mkbytes("raw%s_" % nm, 4)))
        pays.append(p)
        tail.append(p)
        adr += 2
    return lines, pays, tail


def extents_model(adrs, payloads):
    """maximal contiguous extents in file order: [(start, [payload...])]"""
    ext = []
    end = None
    for a, p in zip(adrs, payloads):
        if ext and a == end:
            ext[-1][1].append(p)
        else:
            ext.append((a, [p]))
        end = a + len(p)
    return ext


def run_job(job):
    import z3
    from vlib.enginea import sym, runner, stubs

    stubs.load_repo(real_adapter=False)
    from bec2format import bf3file as bf
    from bec2format.error import Bf3FileFormatError, UnsupportedLegacyFirmwareError, UnsupportedTagTypeError

    kind = job["kind"]
    if kind == "unpack":
        k, twin = job["k"], job.get("twin")
        lens0 = job.get("lens")

        def h():
            pi = sym.sym_int("pattern", 0, len(job["pats"]))
            pat = None
            for i, p in enumerate(job["pats"]):
                if pi == i:
                    pat = p
                    break
            first, rels = pat
            lens = lens0 or [1 + (i % 3) for i in range(k)]
            adrs = addresses(first, rels, lens)
            pays = [sym.sym_bytes("d%d_" % i, lens[i]) for i in range(k)]
            raws = [sym.sym_bytes("r%d_" % i, 3) for i in range(k)]
            lines = [mk_line(bf, 0x84, adrs[i], pays[i], raws[i]) for i in range(k)]
            ext = extents_model(adrs, pays)
            starts = [s for s, _ in ext]
            why = None
            if len(set(starts)) != len(starts):
                # two extents with the same start address cannot both live in the result; any outcome but
                # silent acceptance as a BLOB is fine here
                try:
                    blob = bf.Bf3File.bf2_convert_payload(lines, bf.BF3FMT.BLOB)
                    why = "BLOB accepted although two extents start at the same address (data lost)"
                except Bf3FileFormatError:
                    pass
            else:
                got = bf.Bf3File.bf2_unpack_payload(lines)
                want = {s: b"".join(ps) for s, ps in ext}
                if got != want:
                    why = "extents differ"
                # BLOB
                blob_ok = len(ext) == 1 and ext[0][0] == 0
                try:
                    blob = bf.Bf3File.bf2_convert_payload(lines, bf.BF3FMT.BLOB)
                    if not blob_ok:
                        why = why or "BLOB accepted with gap / non-zero start"
                    elif blob != b"".join(pays):
                        why = why or "BLOB bytes differ"
                except Bf3FileFormatError:
                    if blob_ok:
                        why = why or "contiguous BLOB rejected"
                except Exception as e:
                    why = why or "BLOB conversion raised %s" % type(e).__name__
                mem = bf.Bf3File.bf2_convert_payload(lines, bf.BF3FMT.MEMORYIMAGE)
                wantmem = b""
                for s, ps in sorted(ext, key=lambda e: e[0]):
                    d = b"".join(ps)
                    wantmem += s.to_bytes(4, "big") + len(d).to_bytes(4, "big") + d
                if mem != wantmem:
                    why = why or "MEMORYIMAGE differs"
            if bf.Bf3File.bf2_convert_payload(lines, bf.BF3FMT.BF2COMPATIBLE) != b"".join(raws):
                why = why or "BF2COMPATIBLE differs"
            if twin:
                why = "twin"
            if why:
                runner.record_witness(why=why, first=first, rels=rels, lens=lens, adrs=adrs, data=pays)
                return False
            return True

        res = runner.run(h, job["timeout"] - 60, job["timeout"] - 60)
        res["symbolic_dims"] = 6 * k
        if res["verdict"] == "violated":
            why = str((res.get("witness") or {}).get("why", ""))
            res["signature"] = "C13:same-start-extents-accepted" if "same address" in why else "C13:unpack"
            res["message"] = why + " | " + str(res.get("message"))
        return res

    if kind == "import":
        shape = job["shape"]

        def section(tagtype, nlines, start=0, gap=False, tag=""):
            lines, adr, pays = [], start, []
            for i in range(nlines):
                p = sym.sym_bytes("s%s_%d_" % (tag, i), 2)
                lines.append(mk_line(bf, tagtype, adr, p, sym.sym_bytes("raw%s_%d_" % (tag, i), 4)))
                pays.append(p)
                adr += 2 + (1 if gap and i == 0 else 0)
            return lines, pays

        def h():
            objs, expect = [], []
            marker = [("Bf3Update", "1")]
            fwline = [("Firmware", "1100 FW_NAME   1.23.04 01/01/24 12345678")]
            reject = None
            if shape in ("one-main", "no-marker", "unmapped-known-tagtype"):
                tt = 0x84 if shape != "unmapped-known-tagtype" else 0x85
                ls, ps = section(tt, 2, tag="a")
                objs = fwline + ([] if shape == "no-marker" else marker) + [("CHECK_FWVER", {"VERSIONDESC": "*"}), ("load", ls), ("REBOOT", {})]
                expect = [dict(type=b"\x02", fmt=b"\x02", blob=b"".join(l.rawdata for l in ls), reboot=True, fwver=(1100).to_bytes(2, "big") + bytes([1, 23, 4]))]
                if shape == "no-marker":
                    reject = UnsupportedLegacyFirmwareError
                if shape == "unmapped-known-tagtype":
                    reject = UnsupportedTagTypeError
            elif shape == "one-loader":
                ls, ps = section(0x70, 2, tag="a")
                objs = fwline + marker + [("SELECT_IF", {"PROTOCOL": "BRP-SER"}), ("load", ls), ("REBOOT", {})]
                expect = [dict(type=b"\x00", fmt=b"\x02", blob=b"".join(l.rawdata for l in ls), reboot=True, intf=b"\x01")]
            elif shape in ("one-peripheral-sm4200", "gap-in-blob", "ignored-prepare"):
                ls, ps = section(0x35, 2, gap=(shape == "gap-in-blob"), tag="a")
                pre = []
                if shape == "ignored-prepare":
                    pl, _ = section(0x34, 1, tag="p")
                    pre = [("load", pl)]
                objs = marker + pre + [("load", ls), ("CRC", "0x0000BEEF"), ("REBOOT", {})]
                expect = [dict(type=b"\x01", fmt=b"\x00", blob=b"".join(ps), reboot=True, intf=b"\x05", crc=(0xBEEF).to_bytes(4, "big"))]
                if shape == "gap-in-blob":
                    reject = Bf3FileFormatError
            elif shape in ("one-ble", "ble-filter-2", "ble-filter-3", "ble-plain-filter"):
                ls, ps = section(0x39, 3, tag="a")
                flt = {"one-ble": "01 01 00 B6", "ble-filter-2": "01 02 80 B6 00 BE", "ble-filter-3": "01 02 80 BE 00 B6", "ble-plain-filter": "01 01 00 07"}[shape]
                objs = marker + [("SELECT", {"FILTER": flt}), ("load", ls), ("REBOOT", {})]
                # documented special cases: these three filters denote the BGM12X; any other single-entry
                # filter gives its own hardware id
                special = shape != "ble-plain-filter"
                hw = bf.HWCID_MAP["BGM12X"].to_bytes(2, "big") if special else bytes.fromhex("0007")
                expect = [dict(type=b"\x01", fmt=b"\x00", blob=b"".join(ps), reboot=True, pfid2=bytes.fromhex(flt.replace(" ", "")), hwcid=hw)]
            elif shape == "two-sections":
                l1, p1 = section(0x3D, 2, tag="a")
                l2, p2 = section(0x84, 1, tag="b")
                objs = fwline + marker + [("load", l1), ("REBOOT", {}), ("CHECK_FWVER", {"VERSIONDESC": "*"}), ("load", l2), ("REBOOT", {})]
                expect = [dict(type=b"\x01", fmt=b"\x00", blob=b"".join(p1), reboot=True), dict(type=b"\x02", fmt=b"\x02", blob=b"".join(l.rawdata for l in l2), reboot=True)]
            elif shape == "crc-then-no-crc":
                # instructions of one section must not leak into the next one
                l1, p1 = section(0x35, 1, tag="a")
                l2, p2 = section(0x3D, 1, tag="b")
                objs = marker + [("load", l1), ("CRC", "0x0000BEEF"), ("SELECT_IF", {"PROTOCOL": "*"}), ("REBOOT", {}), ("load", l2), ("REBOOT", {})]
                expect = [dict(type=b"\x01", fmt=b"\x00", blob=b"".join(p1), reboot=True, crc=(0xBEEF).to_bytes(4, "big"), hwcid=bf.HWCID_MAP["SM4200"].to_bytes(2, "big")), dict(type=b"\x01", fmt=b"\x00", blob=b"".join(p2), reboot=True, hwcid=bf.HWCID_MAP["PN5180"].to_bytes(2, "big"))]
            elif shape == "unknown-tagtype":
                ls, ps = section(0x10, 1, tag="a")
                objs = marker + [("load", ls), ("REBOOT", {})]
                reject = Bf3FileFormatError
            elif shape.startswith("paged:"):
                base = int(shape[6:], 16)
                ls, ps, tail = paged_section(bf, base, lambda nm, n: sym.sym_bytes(nm, n))
                typ, hw, fmt, intf = PAGED_FAMILIES[base]
                # one data group per 64 KiB page, as the BF2 tool chain lays images out
                groups = []
                for l in ls:
                    if not groups or groups[-1][0].fwtagtype != l.fwtagtype:
                        groups.append([])
                    groups[-1].append(l)
                objs = fwline + marker + ([("CHECK_FWVER", {"VERSIONDESC": "*"})] if typ == 2 else [("SELECT_IF", {"PROTOCOL": "BRP-SER"})] if typ == 0 else []) + [("load", g) for g in groups] + [("REBOOT", {})]
                blob = b"".join(ps) if fmt == 0 else b"".join(l.rawdata for l in ls)
                expect = [dict(type=bytes([typ]), fmt=bytes([fmt]), blob=blob, reboot=True)]
                if typ == 0:
                    expect[0]["intf"] = b"\x01"
                if hw:
                    expect[0]["hwcid"] = bf.HWCID_MAP[hw].to_bytes(2, "big")
            bf.Bf3File.parse_bf2_file = classmethod(lambda cls, f: iter(objs))
            try:
                f = bf.Bf3File.bf2_import(io.StringIO(""))
            except Bf3FileFormatError as e:
                return reject is not None and isinstance(e, reject)
            if reject is not None:
                runner.record_witness(why="accepted although %s expected" % reject.__name__)
                return False
            ok = len(f.components) == len(expect)
            comps = list(f.components)
            exps = list(expect)
            if len({e["type"] for e in exps}) == len(exps):
                comps = sorted(comps, key=lambda c: c.description[bf.BF3TAG.TYPE])
                exps = sorted(exps, key=lambda e: e["type"])
            for c, e in zip(comps, exps):
                d = c.description
                ok = ok and d.get(0xC3) == e["type"] and d.get(0xC1) == e["fmt"] and c.blob == e["blob"] and (d.get(0xC5) == b"\x01") == e["reboot"]
                # exact tag set: a tag the instructions of this section do not state must be absent
                for key, tag in (("crc", 0xC7), ("pfid2", 0xC9)):
                    ok = ok and d.get(tag) == e.get(key)
                for key, tag in (("intf", 0xC6), ("fwver", 0xC8), ("hwcid", 0xC4)):
                    if key in e:
                        ok = ok and d.get(tag) == e[key]
            ok = ok and f.comments.get("Bf3Update") == "1" and all(("Component%d" % i) in f.comments for i in range(len(expect)))
            if not ok:
                runner.record_witness(why="components/tags differ", got=[(dict(c.description), c.blob) for c in f.components])
            return ok

        res = runner.run(h, job["timeout"] - 60, job["timeout"] - 60)
        res["symbolic_dims"] = 12
        if res["verdict"] == "violated":
            res["signature"] = "C13:import:" + shape
        return res

    if kind == "pfid2":
        n = job["n"]
        from bec2format.hwcids import REV_HWCID_MAP

        ids = [0x00B6, 0x0007, 0x1234]

        def h():
            flags = [(sym.sym_int("neg%d" % i, 0, 2), sym.sym_int("more%d" % i, 0, 2)) for i in range(n)]
            truth = [sym.sym_int("t%d" % i, 0, 2) for i in range(n)]
            body = b""
            for i in range(n):
                neg, more = flags[i]
                if i == n - 1:
                    sym.assume(sym.expr_of(more) == 0)  # the last entry closes its group
                e = ids[i] + (0x4000 if neg == 1 else 0) + (0x8000 if more == 1 else 0)
                body += e.to_bytes(2, "big")
            text = bf.pfid2_filter_to_str(bytes([1, n]) + body)
            # semantics of the filter bytes: AND of groups, a group is an OR of (possibly negated) ids,
            # an entry with bit 15 set continues the group
            val, grp = True, False
            for i in range(n):
                neg, more = flags[i]
                lit = (truth[i] == 1) != (neg == 1)
                grp = grp or lit
                if more == 0:
                    val = val and grp
                    grp = False
            # evaluate the produced text
            expr = text
            for i in range(n):
                nm = REV_HWCID_MAP.get(ids[i], "0x{:04X}".format(ids[i]))
                expr = expr.replace(nm, "T[%d]" % i)
            expr = expr.replace("!", " not ").replace("&", " and ").replace("|", " or ")
            T = [bool(t == 1) for t in truth]
            got = eval(expr, {"T": T})
            if bool(got) != bool(val):
                runner.record_witness(why="filter text not equivalent", text=text, flags=[(f[0], f[1]) for f in flags], truth=truth)
                return False
            return True

        res = runner.run(h, job["timeout"] - 60, job["timeout"] - 60)
        res["symbolic_dims"] = 3 * n
        if res["verdict"] == "violated":
            res["signature"] = "C13:pfid2"
        return res

    if kind == "pfid2bad":
        def h():
            x, y = sym.sym_int("f0", 0, 3), sym.sym_int("f1", 0, 4)
            b = bytes([x, y, 0x00, 0xB6])
            wf = b[0] == 1 and 2 + b[1] * 2 == 4
            try:
                bf.pfid2_filter_to_str(b)
            except Bf3FileFormatError:
                return bool(not wf)
            return bool(wf)

        res = runner.run(h, job["timeout"] - 60, job["timeout"] - 60)
        res["symbolic_dims"] = 4
        if res["verdict"] == "violated":
            res["signature"] = "C13:pfid2-malformed"
        return res
    raise ValueError(kind)


def _unhex(w):
    if isinstance(w, dict):
        if set(w) == {"hex"}:
            return bytes.fromhex(w["hex"])
        return {k: _unhex(v) for k, v in w.items()}
    if isinstance(w, list):
        return [_unhex(x) for x in w]
    return w


def replay(job):
    from vlib import common

    common.setup_paths()
    from bec2format import bf3file as bf
    from bec2format.error import Bf3FileFormatError

    if job.get("twin"):
        return dict(reproduced=True, signature="twin")
    w = _unhex(job.get("witness") or {})
    kind = job["kind"]
    if kind == "unpack":
        adrs, data = w.get("adrs"), w.get("data")
        if not adrs:
            return dict(reproduced=False, detail="no witness")
        lines = [mk_line(bf, 0x84, a, d, b"raw") for a, d in zip(adrs, data)]
        ext = extents_model(adrs, data)
        starts = [s for s, _ in ext]
        if len(set(starts)) != len(starts):
            try:
                blob = bf.Bf3File.bf2_convert_payload(lines, bf.BF3FMT.BLOB)
                return dict(reproduced=True, signature="C13:same-start-extents-accepted", detail="lines at %s with data %s accepted as BLOB %s" % (adrs, [d.hex() for d in data], blob.hex()))
            except Bf3FileFormatError:
                return dict(reproduced=False, detail="rejected")
        got = bf.Bf3File.bf2_unpack_payload(lines)
        want = {s: b"".join(ps) for s, ps in ext}
        if got != want:
            return dict(reproduced=True, signature="C13:unpack", detail="lines at %s data %s: extents %s, expected %s" % (adrs, [d.hex() for d in data], {k: v.hex() for k, v in got.items()}, {k: v.hex() for k, v in want.items()}))
        ok_blob = len(ext) == 1 and ext[0][0] == 0
        try:
            blob = bf.Bf3File.bf2_convert_payload(lines, bf.BF3FMT.BLOB)
            bad = (not ok_blob) or blob != b"".join(data)
        except Bf3FileFormatError:
            bad = ok_blob
        except Exception as e:
            return dict(reproduced=True, signature="C13:unpack", detail="BLOB conversion of lines at %s raised %s: %s" % (adrs, type(e).__name__, e))
        return dict(reproduced=bad, signature="C13:unpack", detail="BLOB decision differs for lines at %s" % adrs)
    if kind == "pfid2":
        return dict(reproduced=True, signature="C13:pfid2", detail="filter text %r for flags %s truth %s" % (w.get("text"), w.get("flags"), w.get("truth")))
    if kind == "import":
        # concrete BF2 text for the shape, through the real line parser and importer
        def line(tagtype, adr, payload, ndx=0):
            page, off = adr >> 16, adr & 0xFFFF
            fwtag = bytes([len(payload) + 2, off >> 8, off & 0xFF]) + payload
            r = ndx.to_bytes(2, "big") + bytes([tagtype + page, len(fwtag)]) + fwtag
            return ":" + r.hex().upper() + "\n"

        end = ":0000FF00\n"
        shape = job["shape"]
        txt = "##Bf3Update: 1\n"
        expect_reject = shape in ("gap-in-blob", "unknown-tagtype", "no-marker", "unmapped-known-tagtype")
        if shape == "gap-in-blob":
            txt += line(0x35, 0, b"\xAA\xBB") + line(0x35, 3, b"\xCC\xDD") + end + "##CRC: 0x0000BEEF\n#>REBOOT\n"
        elif shape == "unknown-tagtype":
            txt += line(0x10, 0, b"\xAA") + end + "#>REBOOT\n"
        elif shape == "no-marker":
            txt = line(0x84, 0, b"\xAA") + end + "#>REBOOT\n"
        elif shape in ("one-ble", "ble-filter-2", "ble-filter-3", "ble-plain-filter"):
            flt = {"one-ble": "01 01 00 B6", "ble-filter-2": "01 02 80 B6 00 BE", "ble-filter-3": "01 02 80 BE 00 B6", "ble-plain-filter": "01 01 00 07"}[shape]
            txt += "#>SELECT FILTER=" + flt + "\n" + line(0x39, 0, b"\xAA\xBB") + end + "#>REBOOT\n"
            want = bf.HWCID_MAP["BGM12X"].to_bytes(2, "big") if shape != "ble-plain-filter" else bytes.fromhex("0007")
            try:
                f = bf.Bf3File.bf2_import(io.StringIO(txt))
            except Exception as e:
                return dict(reproduced=True, signature="C13:import:" + shape, detail="BLE section with filter %s: %s: %s" % (flt, type(e).__name__, e))
            got = f.components[0].description.get(0xC4)
            return dict(reproduced=got != want, signature="C13:import:" + shape, detail="BLE section with filter %s imported with hardware id %s, documented %s" % (flt, got.hex() if got else None, want.hex()))
        elif shape == "crc-then-no-crc":
            txt += line(0x35, 0, b"\xAA\xBB") + end + "##CRC: 0x0000BEEF\n#>REBOOT\n" + line(0x3D, 0, b"\xCC") + end + "#>REBOOT\n"
            try:
                f = bf.Bf3File.bf2_import(io.StringIO(txt))
            except Exception as e:
                return dict(reproduced=True, signature="C13:import:" + shape, detail="%s: %s" % (type(e).__name__, e))
            crcs = [c.description.get(0xC7) for c in f.components]
            bad = sorted(x is not None for x in crcs) != [False, True]
            return dict(reproduced=bad, signature="C13:import:" + shape, detail="BF2 text with ##CRC on the first section only -> CRC tags %s" % crcs)
        elif shape.startswith("paged:"):
            base = int(shape[6:], 16)
            typ, hw, fmt, intf = PAGED_FAMILIES[base]
            cnt = [0]

            def mk(nm, n):
                cnt[0] += 1
                return bytes((cnt[0] * 37 + k) & 0xFF for k in range(n))

            ls, ps, tail = paged_section(bf, base, mk)
            txt += "##Firmware: 1100 FW_NAME   1.23.04 01/01/24 12345678\n"
            txt += "#>CHECK_FWVER VERSIONDESC=*\n" if typ == 2 else "#>SELECT_IF PROTOCOL=BRP-SER\n" if typ == 0 else ""
            prev = None
            raws = []
            for i, (l, p_) in enumerate(zip(ls, ps)):
                if prev is not None and prev != l.fwtagtype:
                    txt += end
                prev = l.fwtagtype
                r = (i & 0xFFFF).to_bytes(2, "big") + bytes([l.fwtagtype, len(l.fwtag)]) + l.fwtag
                raws.append(r)
                txt += ":" + r.hex().upper() + "\n"
            txt += end + "#>REBOOT\n"
            try:
                f = bf.Bf3File.bf2_import(io.StringIO(txt))
            except Exception as e:
                return dict(reproduced=True, signature="C13:import:" + shape, detail="gap-free %d-byte image of family 0x%02X, one data group per 64 KiB page (last group tag type 0x%02X): %s: %s" % (sum(map(len, ps)), base, prev, type(e).__name__, e))
            want = b"".join(ps) if fmt == 0 else None
            got = f.components[0].blob if len(f.components) == 1 else None
            bad = got is None or (want is not None and got != want) or (want is None and not all(p_ in got for p_ in ps))
            return dict(reproduced=bad, signature="C13:import:" + shape, detail="paged image of family 0x%02X imported with different payload" % base)
        else:
            txt += line(0x35, 0, b"\xAA\xBB") + line(0x35, 2, b"\xCC\xDD") + end + "#>REBOOT\n"
        try:
            f = bf.Bf3File.bf2_import(io.StringIO(txt))
        except Bf3FileFormatError as e:
            return dict(reproduced=not expect_reject, signature="C13:import:" + shape, detail="rejected: %s" % e)
        except Exception as e:
            return dict(reproduced=True, signature="C13:import:" + shape, detail="%s: %s" % (type(e).__name__, e))
        return dict(reproduced=expect_reject, signature="C13:import:" + shape, detail="BF2 text %r imported as %r" % (txt, f.components))
    return dict(reproduced=False, detail="replay not implemented for " + kind)
