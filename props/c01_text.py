"""C01/C03 text layer: lemmas generated from the AST of write_bf3_format,
hex2bin and parse_bf3_file, decided by z3 (LIA, char classes) and cvc5
(unbounded strings).  Unsupported syntax => inconclusive."""
import ast
import io
import os
import re
import time

import z3

from vlib import common
from vlib.enginec import smt


class Unsupported(Exception):
    pass


def _src():
    p = os.path.join(common.REPO, "bec2format", "bf3file.py")
    return ast.parse(open(p).read()), p


def _find_func(tree, name):
    for n in ast.walk(tree):
        if isinstance(n, ast.FunctionDef) and n.name == name:
            return n
    raise Unsupported("function %s not found" % name)


def _module_consts(tree):
    env = {}
    for n in tree.body:
        if isinstance(n, ast.Assign) and len(n.targets) == 1 and isinstance(n.targets[0], ast.Name):
            try:
                env[n.targets[0].id] = ast.literal_eval(n.value)
            except Exception:
                pass
    return env


def _lia(node, env, n_sym, lenarg):
    """integer expression over len(<lenarg>) -> z3 Int"""
    if isinstance(node, ast.Constant) and isinstance(node.value, int):
        return z3.IntVal(node.value)
    if isinstance(node, ast.Name):
        if node.id in env and isinstance(env[node.id], int):
            return z3.IntVal(env[node.id])
        if node.id in env and isinstance(env[node.id], z3.ExprRef):
            return env[node.id]
        raise Unsupported("name " + node.id)
    if isinstance(node, ast.Call) and isinstance(node.func, ast.Name) and node.func.id == "len" and isinstance(node.args[0], ast.Name) and node.args[0].id == lenarg:
        return n_sym
    if isinstance(node, ast.BinOp):
        a, b = _lia(node.left, env, n_sym, lenarg), _lia(node.right, env, n_sym, lenarg)
        if isinstance(node.op, ast.Add):
            return a + b
        if isinstance(node.op, ast.Sub):
            return a - b
        if isinstance(node.op, ast.Mult):
            return a * b
        if isinstance(node.op, ast.FloorDiv):
            return a / b  # z3 Int division = floor for positive divisor
        raise Unsupported(ast.dump(node.op))
    if isinstance(node, ast.UnaryOp) and isinstance(node.op, ast.USub):
        return -_lia(node.operand, env, n_sym, lenarg)
    raise Unsupported(ast.dump(node))


def extract_writer():
    """literals of write_bf3_format: range args, slice, per-line transform,
    comment format, separators"""
    tree, _ = _src()
    env = _module_consts(tree)
    fn = _find_func(tree, "write_bf3_format")
    info = dict(env=env)
    # simple local definitions (name = integer expression) are inlined into the environment
    info["locals"] = [(n.targets[0].id, n.value) for n in ast.walk(fn) if isinstance(n, ast.Assign) and len(n.targets) == 1 and isinstance(n.targets[0], ast.Name) and not isinstance(n.value, (ast.Call, ast.Subscript, ast.Attribute, ast.Lambda, ast.IfExp))]
    for n in ast.walk(fn):
        if isinstance(n, ast.For) and isinstance(n.iter, ast.Call) and getattr(n.iter.func, "id", "") == "range":
            info["range_args"] = n.iter.args
            info["loopvar"] = n.target.id
            # body: line = rawdata[pos:pos+W]; write(line.hex().upper() + "\n")
            for b in n.body:
                if isinstance(b, ast.Assign) and isinstance(b.value, ast.Subscript) and isinstance(b.value.slice, ast.Slice):
                    info["slice"] = b.value.slice
                    info["sliced"] = b.value.value.id
                    info["linevar"] = b.targets[0].id
                if isinstance(b, ast.Expr) and isinstance(b.value, ast.Call):
                    arg = b.value.args[0]
                    info["line_expr"] = ast.unparse(arg)
        if isinstance(n, ast.Call) and getattr(n.func, "id", "") == "open":
            info["open_write"] = ast.unparse(n)
        if isinstance(n, ast.Lambda):
            for c in ast.walk(n):
                if isinstance(c, ast.Constant) and isinstance(c.value, str):
                    info["comment_fmt"] = c.value
    writes = [ast.unparse(n.args[0]) for n in ast.walk(fn) if isinstance(n, ast.Call) and isinstance(n.func, ast.Attribute) and n.func.attr == "write"]
    info["writes"] = writes
    for k in ("range_args", "slice", "line_expr", "comment_fmt", "open_write"):
        if k not in info:
            raise Unsupported("writer: cannot find " + k)
    return info


def extract_hex2bin():
    tree, _ = _src()
    fn = _find_func(tree, "hex2bin")
    info = {}
    for n in ast.walk(fn):
        if isinstance(n, ast.Call) and getattr(n.func, "id", "") == "sub":
            info["pattern"] = n.args[0].value
            info["repl"] = n.args[1].value
        if isinstance(n, ast.If):
            info["oddtest"] = ast.unparse(n.test)
            info["oddfix"] = ast.unparse(n.body[0])
    if "pattern" not in info or "oddtest" not in info:
        raise Unsupported("hex2bin shape")
    return info


def extract_parser():
    tree, _ = _src()
    fn = _find_func(tree, "parse_bf3_file")
    info = {}
    for n in ast.walk(fn):
        if isinstance(n, ast.While):
            info["terminator_test"] = ast.unparse(n.test)
            t = n.test
            if isinstance(t, ast.Compare) and isinstance(t.ops[0], ast.NotEq) and isinstance(t.comparators[0], ast.Constant):
                info["terminator"] = t.comparators[0].value
            for b in ast.walk(n):
                if isinstance(b, ast.Call) and isinstance(b.func, ast.Attribute) and b.func.attr == "split":
                    info["split_sep"] = b.args[0].value
                    info["maxsplit"] = b.args[1].value if len(b.args) > 1 else None
                if isinstance(b, ast.Assign) and isinstance(b.targets[0], ast.Subscript):
                    info["store"] = ast.unparse(b)
                    info["key_strip"] = ".strip()" in ast.unparse(b.targets[0].slice)
                    info["val_strip"] = ".strip()" in ast.unparse(b.value)
        if isinstance(n, ast.Call) and getattr(n.func, "id", "") == "open":
            info["open_read"] = ast.unparse(n)
    for k in ("terminator", "split_sep", "store", "open_read"):
        if k not in info:
            raise Unsupported("parser: cannot find " + k)
    return info


# ---------------------------------------------------------------------------


def _class_chars(pattern, limit=0x250):
    """characters (code points < limit) matched by the regex character class,
    via the stdlib's own parser"""
    import re._parser as sre_parse  # py3.11+

    parsed = sre_parse.parse(pattern)
    if len(parsed) != 1 or str(parsed[0][0]) != "IN":
        raise Unsupported("pattern is not a single character class: " + pattern)
    return parsed[0][1]


def _class_z3(items, c):
    """z3 constraint: code point c is in the class"""
    import re._parser as sre_parse

    alts = []
    neg = False
    for op, av in items:
        op = str(op)
        if op == "NEGATE":
            neg = True
        elif op == "LITERAL":
            alts.append(c == av)
        elif op == "RANGE":
            alts.append(z3.And(c >= av[0], c <= av[1]))
        elif op == "CATEGORY":
            cat = str(av)
            if cat == "CATEGORY_SPACE":
                alts.append(z3.Or([c == k for k in range(0x30000) if chr(k).isspace()]))
            elif cat == "CATEGORY_DIGIT":
                alts.append(z3.And(c >= 48, c <= 57))
            else:
                raise Unsupported(cat)
        else:
            raise Unsupported(op)
    r = z3.Or(alts)
    return z3.Not(r) if neg else r


def lemma_lines(twin=False):
    """T1: slices cover [0,n) exactly once, in order, each line <= END_OF_LINE chars"""
    w = extract_writer()
    env = dict(w["env"])
    n, i, k = z3.Ints("n i k")
    for name, val in w.get("locals", []):
        try:
            env[name] = _lia(val, env, n, w["sliced"])
        except Unsupported:
            pass
    args = [_lia(a, env, n, w["sliced"]) for a in w["range_args"]]
    if len(args) == 1:
        start, stop, step = z3.IntVal(0), args[0], z3.IntVal(1)
    elif len(args) == 2:
        start, stop, step = args[0], args[1], z3.IntVal(1)
    else:
        start, stop, step = args
    if twin:
        stop = stop - step  # deliberately wrong: last line dropped
    sl = w["slice"]
    pos = start + k * step
    env2 = dict(env)
    env2[w["loopvar"]] = pos
    lo = _lia(sl.lower, env2, n, w["sliced"]) if sl.lower is not None else z3.IntVal(0)
    hi = _lia(sl.upper, env2, n, w["sliced"]) if sl.upper is not None else n
    if sl.step is not None:
        raise Unsupported("slice step")
    step_c = z3.simplify(step)
    if not z3.is_int_value(step_c) or step_c.as_long() <= 0:
        raise Unsupported("range step must be a positive constant")
    st = step_c.as_long()
    in_range = z3.And(k >= 0, pos < stop)
    # python slice semantics for 0 <= lo: bytes lo .. min(hi, n)-1
    covered = z3.And(in_range, lo >= 0, lo <= i, i < hi, i < n)
    queries = []
    s = z3.Solver()
    s.set("timeout", 120000)
    # (a) every byte index is covered by some line: choose k = (i - start) div step
    k0 = (i - start) / st
    s.push()
    s.add(n >= 0, i >= 0, i < n, z3.Not(z3.substitute(covered, (k, k0))))
    queries.append(("coverage", s.check()))
    m1 = s.model() if queries[-1][1] == z3.sat else None
    s.pop()
    # (b) covered by at most one line
    k2 = z3.Int("k2")
    s.push()
    s.add(n >= 0, covered, z3.substitute(covered, (k, k2)), k != k2)
    queries.append(("uniqueness", s.check()))
    s.pop()
    # (c) order: within a line bytes ascend (slice), and lines ascend with k (lo monotone in k)
    s.push()
    s.add(k2 > k, z3.substitute(lo, (k, k2)) <= lo)
    queries.append(("order", s.check()))
    s.pop()
    # (d) no line exceeds END_OF_LINE characters (2 hex chars per byte)
    s.push()
    s.add(n >= 0, in_range, 2 * (z3.If(hi < n, hi, n) - lo) > env["END_OF_LINE"])
    queries.append(("linewidth", s.check()))
    s.pop()
    # END_OF_LINE is needed as a number below
    bad = [q for q, r in queries if r != z3.unsat]
    unk = [q for q, r in queries if r == z3.unknown]
    wit = None
    if m1 is not None:
        wit = dict(n=m1.eval(n, True).as_long(), i=m1.eval(i, True).as_long())
    return queries, bad, unk, wit


def lemma_alphabet():
    """T2: everything the line writer emits besides hex digits is deleted by
    hex2bin's character class; no upper-case hex digit is deleted"""
    w = extract_writer()
    h = extract_hex2bin()
    if h["repl"] != "":
        raise Unsupported("sub replacement is not empty")
    if w["line_expr"].replace(" ", "") != "line.hex().upper()+'\\n'".replace(" ", ""):
        raise Unsupported("line expression: " + w["line_expr"])
    items = _class_chars(h["pattern"])
    c = z3.Int("c")
    inclass = _class_z3(items, c)
    s = z3.Solver()
    qs = []
    hexu = z3.Or(z3.And(c >= 48, c <= 57), z3.And(c >= 65, c <= 70))
    s.push(); s.add(hexu, inclass); qs.append(("hex-not-deleted", s.check())); s.pop()
    # separators that can occur between hex lines after universal-newline or stream reading
    for name, cp in (("LF", 10), ("CR", 13)):
        s.push(); s.add(c == cp, z3.Not(inclass)); qs.append((name + "-deleted", s.check())); s.pop()
    bad = [q for q, r in qs if r != z3.unsat]
    return qs, bad


def lemma_oddfix():
    h = extract_hex2bin()
    # even length => branch not taken: (len % 2 == 1) with len = 2m is unsat
    ok = h["oddtest"].replace(" ", "") == "len(clean_hex_str)%2==1"
    m, L = z3.Ints("m L")
    s = z3.Solver()
    s.add(L == 2 * m, m >= 0, L % 2 == 1)
    r = s.check()
    return ok, r


def comment_smt(fmt, sep, maxsplit, key_strip, val_strip, terminator, negate_side=None):
    """SMT-LIB queries: is there (k, v) satisfying the side conditions for
    which the written line is parsed differently?  Returns [(name, text)];
    all unsat = round trip holds.  The proof is staged: the strip-uniqueness
    query uses `rest` in the closed form that query `rest-form` proves."""
    m = re.fullmatch(r"\{\}(.*?)\{\}(.*)", fmt, re.S)
    if not m:
        raise Unsupported("comment format " + repr(fmt))
    mid, tail = m.group(1), m.group(2)
    if len(sep) != 1:
        raise Unsupported("split separator")
    if maxsplit not in (None, 1):
        raise Unsupported("maxsplit")
    WS, _ = smt.ws_class_re()
    P = []
    A = P.append
    A("(set-logic ALL)")
    A("(set-option :produce-models true)")
    A("(declare-const k String)(declare-const v String)")
    A("(define-fun ws () RegLan %s)" % WS)
    side = {
        "k-no-sep": "(not (str.contains k %s))" % smt.smt_str(sep),
        "k-no-lf": '(not (str.contains k "\\u{a}"))',
        "k-no-cr": '(not (str.contains k "\\u{d}"))',
        "v-no-lf": '(not (str.contains v "\\u{a}"))',
        "v-no-cr": '(not (str.contains v "\\u{d}"))',
        "v-stripped": '(or (= v "") (and (not (str.in_re (str.at v 0) ws)) (not (str.in_re (str.at v (- (str.len v) 1)) ws))))',
    }
    for name, c in side.items():
        A("(assert (not %s))" % c if name == negate_side else "(assert %s)" % c)
    A("(define-fun line () String (str.++ k %s v %s))" % (smt.smt_str(mid), smt.smt_str(tail)))
    # readline: text up to and including the first LF
    A('(define-fun nl () Int (str.indexof line "\\u{a}" 0))')
    A("(define-fun rl () String (ite (< nl 0) line (str.substr line 0 (+ nl 1))))")
    A("(define-fun ix () Int (str.indexof rl %s 0))" % smt.smt_str(sep))
    A("(define-fun kp () String (str.substr rl 0 ix))")
    pre = list(P)

    def strip_decl(L, name, src):
        L.append("(declare-const %s String)(declare-const %s_a String)(declare-const %s_b String)" % (name, name, name))
        L.append("(assert (= %s (str.++ %s_a %s %s_b)))" % (src, name, name, name))
        L.append("(assert (str.in_re %s_a (re.* ws)))(assert (str.in_re %s_b (re.* ws)))" % (name, name))
        L.append('(assert (or (= %s "") (and (not (str.in_re (str.at %s 0) ws)) (not (str.in_re (str.at %s (- (str.len %s) 1)) ws)))))' % (name, name, name, name))

    REST = "(define-fun rest () String (str.substr rl (+ ix 1) (str.len rl)))"
    tailq = "(check-sat)\n(get-value (k v))"
    Q = []
    if negate_side:
        # one monolithic satisfiable query (witness search)
        L = pre + [REST]
        kk, vv = "kp", "rest"
        if key_strip:
            strip_decl(L, "ks", "kp"); kk = "ks"
        if val_strip:
            strip_decl(L, "vs", "rest"); vv = "vs"
        fails = ["(< ix 0)", "(not (= %s k))" % kk, "(not (= %s v))" % vv, "(= rl %s)" % smt.smt_str(terminator), "(not (= rl line))"]
        if maxsplit is None:
            fails.append("(str.contains rest %s)" % smt.smt_str(sep))
        L.append("(assert (or %s))" % " ".join(fails))
        return [("necessity-" + negate_side, "\n".join(L + [tailq]))]
    Q.append(("readline-whole-line", "\n".join(pre + ["(assert (not (= rl line)))", tailq])))
    Q.append(("separator-found", "\n".join(pre + ["(assert (< ix 0))", tailq])))
    Q.append(("not-terminator", "\n".join(pre + ["(assert (= rl %s))" % smt.smt_str(terminator), tailq])))
    L = list(pre)
    if key_strip:
        strip_decl(L, "ks", "kp")
        L.append("(assert (not (= ks k)))")
    else:
        L.append("(assert (not (= kp k)))")
    Q.append(("key", "\n".join(L + [tailq])))
    p = mid.find(sep)
    if p >= 0:
        closed = "(str.++ %s v %s)" % (smt.smt_str(mid[p + 1 :]), smt.smt_str(tail))
        Q.append(("rest-form", "\n".join(pre + [REST, "(assert (not (= rest %s)))" % closed, tailq])))
        RESTC = "(define-fun rest () String %s)" % closed
    else:
        RESTC = REST
    L = pre + [RESTC]
    if val_strip:
        strip_decl(L, "vs", "rest")
        L.append("(assert (not (= vs v)))")
    else:
        L.append("(assert (not (= rest v)))")
    Q.append(("value", "\n".join(L + [tailq])))
    if maxsplit is None:
        Q.append(("single-separator", "\n".join(pre + [RESTC, "(assert (str.contains rest %s))" % smt.smt_str(sep), tailq])))
    return Q


def py_model_comment(fmt, sep, maxsplit, key_strip, val_strip, terminator, k, v):
    """the same model evaluated concretely (translator validation)"""
    m = re.fullmatch(r"\{\}(.*?)\{\}(.*)", fmt, re.S)
    line = k + m.group(1) + v + m.group(2)
    nl = line.find("\n")
    rl = line if nl < 0 else line[: nl + 1]
    if rl == terminator:
        return None
    ix = rl.find(sep)
    if ix < 0:
        return None
    kp, rest = rl[:ix], rl[ix + 1 :]
    if maxsplit is None and sep in rest:
        return None
    return (kp.strip() if key_strip else kp, rest.strip() if val_strip else rest)


def real_comment_roundtrip(k, v):
    from bec2format.bf3file import Bf3File

    s = io.StringIO()
    Bf3File.write_bf3_format(s, {k: v}, b"")
    s.seek(0)
    try:
        _, comments = Bf3File.parse_bf3_file(s)
    except Exception:
        return None
    items = list(comments.items())
    return items[0] if len(items) == 1 else None


def lemma_comment():
    w, p = extract_writer(), extract_parser()
    args = (w["comment_fmt"], p["split_sep"], p.get("maxsplit"), p.get("key_strip", False), p.get("val_strip", False), p["terminator"])
    # translator validation on a corpus
    import random

    rnd = random.Random(7)
    alpha = ["a", "B", " ", ":", "\t", "-", "0", "\x0b", "\xa0", "=", "é", "\n"]
    mism = 0
    ncorp = 0
    for _ in range(400):
        k = "".join(rnd.choice(alpha) for _ in range(rnd.randrange(0, 4)))
        v = "".join(rnd.choice(alpha) for _ in range(rnd.randrange(0, 5)))
        if "\n" in k or "\n" in v:
            continue
        ncorp += 1
        a = py_model_comment(*args, k, v)
        b = real_comment_roundtrip(k, v)
        # the model only predicts single-line behaviour
        if a != b:
            mism += 1
            bad = (k, v, a, b)
    if mism:
        return dict(verdict="inconclusive", state="TRANSLATOR_MISMATCH", message="model vs real differ on %r" % (bad,))
    from concurrent.futures import ThreadPoolExecutor

    Q = comment_smt(*args)
    with ThreadPoolExecutor(max_workers=8) as ex:
        R = list(ex.map(lambda q: smt.run_smt(q[1], "cvc5", timeout=300), Q))
    out = dict(queries=len(Q), solver_s=round(sum(r["time_s"] for r in R), 2), corpus=ncorp)
    summary = [(q[0], r["result"], r["time_s"]) for q, r in zip(Q, R)]
    for (name, _), r in zip(Q, R):
        if r["result"] == "sat":
            mm = re.findall(r'\((k|v) "((?:[^"]|"")*)"\)', r["output"])
            wit = {a: re.sub(r"\\u\{([0-9a-fA-F]+)\}", lambda mo: chr(int(mo.group(1), 16)), b.replace('""', '"')) for a, b in mm}
            return dict(out, verdict="violated", state="SAT", message="comment line not round-tripped (%s): %s" % (name, summary), witness=wit, signature="C01:comment-roundtrip")
    if any(r["result"] != "unsat" for r in R):
        return dict(out, verdict="inconclusive", state="UNKNOWN", message=str(summary))
    # necessity of side conditions (guards against a vacuous lemma): witnesses expected
    need = []
    for sc in ("k-no-sep", "v-no-lf", "v-stripped"):
        (nm, t), = comment_smt(*args, negate_side=sc)
        rz = smt.run_smt(t, "z3-new", timeout=120)
        out["queries"] += 1
        out["solver_s"] += rz["time_s"]
        if rz["result"] != "sat":
            rz = smt.run_smt(t, "cvc5", timeout=120)
            out["queries"] += 1
            out["solver_s"] += rz["time_s"]
        need.append((sc, rz["result"], rz["solver"]))
        if rz["result"] != "sat":
            return dict(out, verdict="inconclusive", state="VACUITY", message="side condition %s not shown necessary: %s" % (sc, rz["result"]))
    return dict(out, verdict="held", state="UNSAT", message="cvc5 unsat, unbounded strings: %s; side conditions necessary: %s" % (summary, need))


def run(lemma):
    common.setup_paths()
    t0 = time.time()
    try:
        if lemma in ("T1-lines", "T1-lines-twin"):
            qs, bad, unk, wit = lemma_lines(twin=lemma.endswith("twin"))
            res = dict(queries=len(qs), message=str(qs))
            if unk:
                res.update(verdict="inconclusive", state="UNKNOWN")
            elif bad:
                res.update(verdict="violated", state="SAT", witness=wit, signature="C01:hex-lines")
            else:
                res.update(verdict="held", state="UNSAT")
        elif lemma == "T2-alphabet":
            qs, bad = lemma_alphabet()
            res = dict(queries=len(qs), message=str(qs))
            res.update(verdict="violated" if bad else "held", state="SAT" if bad else "UNSAT", signature="C01:hex-alphabet", witness={"bad": bad})
        elif lemma == "T3-oddfix":
            ok, r = lemma_oddfix()
            res = dict(queries=1, message="oddtest literal ok=%s, z3=%s" % (ok, r))
            if not ok:
                res.update(verdict="inconclusive", state="UNSUPPORTED")
            else:
                res.update(verdict="held" if r == z3.unsat else "violated", state=str(r).upper(), signature="C01:oddfix")
        elif lemma == "T4-comment":
            res = lemma_comment()
        elif lemma == "T5-io-literals":
            w, p = extract_writer(), extract_parser()
            okw = w["open_write"].replace(" ", "") in ("open(bf3file,'w',newline='\\r\\n')",)
            okr = p["open_read"].replace(" ", "") in ("open(bf3file,'r')", "open(bf3file)")
            sep_ok = w["writes"][1:2] == ["'\\n'"]
            # end-to-end concrete validation of the composed text layer on the real code (translator validation)
            import random, tempfile
            from bec2format.bf3file import Bf3File

            rnd = random.Random(3)
            bad = None
            d = tempfile.mkdtemp(prefix="c01t5")
            try:
                for n in list(range(0, 90)) + [119, 120, 121, 400]:
                    raw = bytes(rnd.randrange(256) for _ in range(n))
                    comments = {"a b": "x:y  z", "K": ""}
                    s = io.StringIO()
                    Bf3File.write_bf3_format(s, comments, raw)
                    s.seek(0)
                    rdr, cm = Bf3File.parse_bf3_file(s)
                    pth = os.path.join(d, "f.bf3")
                    Bf3File.write_bf3_format(pth, comments, raw)
                    rdr2, cm2 = Bf3File.parse_bf3_file(pth)
                    os.unlink(pth)
                    if rdr.read() != raw or list(cm.items()) != list(comments.items()) or rdr2.read() != raw or list(cm2.items()) != list(comments.items()):
                        bad = n
                        break
            finally:
                os.rmdir(d)
            res = dict(queries=1, symbolic_dims=0, message="open(write)=%s open(read)=%s blank-line-sep=%s concrete-composition-ok=%s" % (okw, okr, sep_ok, bad is None))
            if bad is not None:
                res.update(verdict="violated", state="CONCRETE_MISMATCH", witness={"n": bad}, signature="C01:text-composition")
            elif okw and okr and sep_ok:
                res.update(verdict="held", state="AST_OK")
            else:
                res.update(verdict="inconclusive", state="UNSUPPORTED")
        else:
            raise Unsupported(lemma)
    except Unsupported as e:
        res = dict(verdict="inconclusive", state="UNSUPPORTED_SYNTAX", message=str(e))
    res.setdefault("solver_s", round(time.time() - t0, 2))
    res.setdefault("symbolic_dims", 1)
    return res


def replay(job):
    """replay text-layer counterexamples on the real functions"""
    common.setup_paths()
    from bec2format.bf3file import Bf3File

    lemma = job.get("lemma", "")
    wit = job.get("witness") or {}
    if lemma.endswith("twin"):
        return dict(reproduced=True, signature="twin")
    if lemma.startswith("T1") and "n" in wit:
        n = wit["n"]
        raw = bytes((7 * i + 1) % 256 for i in range(n))
        s = io.StringIO()
        Bf3File.write_bf3_format(s, {}, raw)
        s.seek(0)
        try:
            rdr, _ = Bf3File.parse_bf3_file(s)
            got = rdr.read()
        except Exception as e:
            got = repr(e)
        lines = s.getvalue().split("\n")
        toolong = any(len(l) > 80 for l in lines)
        return dict(reproduced=(got != raw or toolong), detail="n=%d read back %s" % (n, "equal" if got == raw else "different"), signature="C01:hex-lines")
    if lemma == "T4-comment" and "k" in wit:
        got = real_comment_roundtrip(wit["k"], wit["v"])
        return dict(reproduced=got != (wit["k"], wit["v"]), detail="wrote %r read %r" % ((wit["k"], wit["v"]), got), signature="C01:comment-roundtrip")
    if lemma == "T2-alphabet":
        from bec2format.bf3file import hex2bin

        try:
            ok = hex2bin("0123456789ABCDEF\r\nAB\n") == bytes.fromhex("0123456789ABCDEFAB")
        except Exception:
            ok = False
        return dict(reproduced=not ok, signature="C01:hex-alphabet")
    if lemma == "T5-io-literals":
        return dict(reproduced=True, signature="C01:text-composition", detail="concrete mismatch was observed on the real functions")
    return dict(reproduced=False, detail="no replay for " + lemma)
