"""C01 - BF3 write-then-read returns the same file."""
import io
import json
import os

PROPERTY = "C01"
FILES = ["bec2format/bf3file.py", "bec2format/bytes_reader.py", "bec2format/crypto.py", "appnotes/register_crypto_plugin/__init__.py", "appnotes/register_crypto_plugin/pyaes/blockfeeder.py"]

META = dict(
    level="other",
    engines="AC",
    technique="bounded symbolic execution of the real writer+reader (CrossHair/z3, UF block cipher) per shape; SMT lemmas (z3 LIA, cvc5 strings) generated from the AST for the text envelope",
    level_text="Solver verdict over all payload/tag/key bytes and declared lengths inside each enumerated shape (binary layer) and over unbounded strings/lengths for the text-envelope lemmas; bounded by the shape catalogue, not a proof for all shapes.",
    level_note="Trusted: z3/cvc5, CrossHair's bytes/int proxies, pure-Python BytesIO model (differentially tested at start-up), UF abstraction of AES-CBC (sound over-approximation; C16 covers the real cipher), CPython hex()/unhexlify/text I/O.",
    files=FILES,
    explanation="Bounded symbolic verification. Binary layer: the real Bf3File.to_binary / from_binary / dir_from_binary / BytesReader, the real adapter and block feeder are executed by CrossHair (z3) per concrete shape with every payload byte, tag-value byte, session-key byte and the declared length as solver variables; the verdict 'Confirmed over all paths' is the deciding step. Text layer: lemmas over the literals extracted from the AST of write_bf3_format / hex2bin / parse_bf3_file decided by z3/cvc5 (line slicing covers [0,n) exactly once for unbounded n; hex alphabet disjoint from the characters hex2bin deletes; comment line round trip for unbounded strings).",
    functions=["bec2format.bf3file.Bf3File.to_binary", "Bf3File.dir_to_binary", "Bf3File.from_binary", "Bf3File.dir_from_binary", "Bf3Component.get_raw_data", "bec2format.bytes_reader.BytesReader", "bec2format.crypto.pad", "register_crypto_plugin.AES128Proxy.encrypt/decrypt/mac", "pyaes.blockfeeder.BlockFeeder.feed/_block_final_*", "Bf3File.write_bf3_format (AST literals)", "hex2bin (AST literals)", "Bf3File.parse_bf3_file (AST literals)"],
    stubs=["S-io pure-Python BytesIO", "S-cbc: AESModeOfOperationCBC as uninterpreted per-(key,prev) bijection (sound over-approximation of AES-CBC; the real class is the subject of C16)"],
    assumptions=["CPython text I/O newline translation is trusted (outside the claim)", "str.hex()/unhexlify are inverse on even-length upper-case hex (C built-ins)"],
    bounds=dict(
        quick="payload lengths {1,15,16,17,31,32,33,40,41}, 0..3 components, 0..2 tags (value lengths 0,1,2,3; 208-byte and 100+106-byte limit shapes), tag ids concrete from {00,C1..C9,FF}; keys: symbolic 16 bytes and the default zero key; check_cmac on and off; text lemmas unbounded",
        thorough="payload lengths 1..49,64,65 plus 24 seeded random multi-component shapes; otherwise as quick",
    ),
    outside=["payloads > 65 bytes", "> 3 components", "symbolic tag ids (dict keys are realised)", "CPython file I/O", "unhexlify/hex C code"],
)


def jobs(tier, seed):
    from vlib.enginea import shapes

    J = []
    for sh in shapes.bf3_shapes(tier, seed):
        for keymode in ("sym", "default"):
            J.append(dict(name="bin:%s:%s" % (shapes.shape_name(sh), keymode), kind="bin", shape=sh, keymode=keymode, timeout=600, cost=sum(c["plen"] for c in sh) + 50 * len(sh)))
    J.append(dict(name="bin:many-components:300", kind="many", n=300, timeout=3000, cost=2000))
    J.append(dict(name="bin:twin-reachability", kind="bin", shape=[shapes.comp(17, [(0xC1, 1)])], keymode="sym", twin=True, expect="violated", timeout=300))
    for lemma in ("T1-lines", "T2-alphabet", "T3-oddfix", "T4-comment", "T5-io-literals"):
        J.append(dict(name="text:" + lemma, kind="text", lemma=lemma, timeout=600, cost=500))
    J.append(dict(name="text:T1-lines-twin", kind="text", lemma="T1-lines-twin", expect="violated", timeout=300))
    return J


def build_file(bf, shape, vals):
    comps = []
    for i, c in enumerate(shape):
        desc = {}
        for t, (tid, tl) in enumerate(c["tags"]):
            desc[tid] = vals["tag%d_%d" % (i, t)]
        comps.append(bf.Bf3Component(desc, vals["pay%d" % i], vals.get("al%d" % i), encrypt_by_session_key=bool(c.get("enc"))))
    return bf.Bf3File({}, comps)


def run_job(job):
    if job["kind"] == "text":
        from props import c01_text

        return c01_text.run(job["lemma"])
    from vlib.enginea import sym, runner, stubs

    stubs.load_repo()
    stubs.install_uf_cbc()
    stubs.install_text_bypass()
    from bec2format import bf3file as bf
    from bec2format.bytes_reader import BytesReader

    if job["kind"] == "many":
        # directory with more than 255 entries (entry index beyond one byte); MAC values are irrelevant
        # here, a constant-output cipher registered through the library's registry keeps it fast
        from bec2format import crypto

        class Const(crypto.AES128):
            def encrypt(self, d):
                return bytes(-(-len(d) // 16) * 16)

            def decrypt(self, d):
                return d

            def mac(self, d):
                return bytes(15) + bytes([len(d) % 251])

        crypto.register_AES128(Const)
        n = job["n"]

        def hm():
            pays = [sym.sym_bytes("p%d_" % i, 1) for i in range(n)]
            f = bf.Bf3File({}, [bf.Bf3Component({}, p) for p in pays])
            carrier = stubs.Carrier()
            runner.track(dict(first=pays[0], last=pays[-1]))
            f.write_file(carrier, bytes(16))
            ok = True
            for chk in (True, False):
                g = bf.Bf3File.read_file(carrier, chk, bytes(16))
                ok = ok and len(g.components) == n
                for i in (0, 1, 254, 255, 256, n - 1):
                    ok = ok and g.components[i].blob == pays[i]
            if not ok:
                runner.record_witness(first=pays[0], last=pays[-1])
            return ok

        res = runner.run(hm, job["timeout"] - 60, job["timeout"] - 60)
        res["symbolic_dims"] = n
        if res["verdict"] == "violated":
            res["signature"] = "C01:many-components"
        return res

    shape, keymode, twin = job["shape"], job["keymode"], job.get("twin")

    def h():
        vals = {}
        for i, c in enumerate(shape):
            vals["pay%d" % i] = sym.sym_bytes("pay%d_" % i, c["plen"])
            vals["al%d" % i] = sym.sym_int("al%d" % i, 1, c["plen"] + 1)
            for t, (tid, tl) in enumerate(c["tags"]):
                vals["tag%d_%d" % (i, t)] = sym.sym_bytes("tag%d_%d_" % (i, t), tl)
        key = sym.sym_bytes("key", 16) if keymode == "sym" else bf.DEFAULT_SESSION_KEY
        vals["key"] = key
        runner.track(vals)
        f = build_file(bf, shape, vals)
        carrier = stubs.Carrier()
        if keymode == "sym":
            f.write_file(carrier, key)
        else:
            f.write_file(carrier)
        ok = True
        for check_cmac in (True, False):
            if keymode == "sym":
                g = bf.Bf3File.read_file(carrier, check_cmac, key)
            else:
                g = bf.Bf3File.read_file(carrier, check_cmac)
            if len(g.components) != len(shape):
                ok = False
                break
            for i, c in enumerate(shape):
                gc = g.components[i]
                want = [(tid, vals["tag%d_%d" % (i, t)]) for t, (tid, tl) in enumerate(c["tags"])]
                if not (gc.blob == vals["pay%d" % i] and gc.actual_len == vals["al%d" % i] and list(gc.description.items()) == want and gc.encrypt_by_session_key is False):
                    ok = False
        if twin:
            ok = False
        if not ok:
            runner.record_witness(**vals)
        return ok

    res = runner.run(h, per_condition_timeout=job["timeout"] - 60, per_path_timeout=job["timeout"] - 60)
    res["symbolic_dims"] = sum(c["plen"] + sum(l for _, l in c["tags"]) for c in shape) + (16 if keymode == "sym" else 0)
    if res["verdict"] == "violated":
        res["signature"] = "C01:bin-roundtrip"
    return res


def _unhex(w):
    out = {}
    for k, v in (w or {}).items():
        out[k] = bytes.fromhex(v["hex"]) if isinstance(v, dict) and "hex" in v else v
    return out


def replay(job):
    """real code, real AES, through the text layer (StringIO and path)"""
    import tempfile
    import register_crypto_plugin  # noqa
    from bec2format import bf3file as bf

    if job.get("kind") == "text":
        from props import c01_text

        return c01_text.replay(job)
    if job.get("twin"):
        return dict(reproduced=True, signature="twin")
    if job.get("kind") == "many":
        n = job["n"]
        f = bf.Bf3File({}, [bf.Bf3Component({}, bytes([i % 256])) for i in range(n)])
        s = io.StringIO()
        try:
            f.write_file(s, bytes(16))
            s.seek(0)
            g = bf.Bf3File.read_file(s, True, bytes(16))
            bad = [i for i in range(n) if g.components[i].blob != bytes([i % 256])][:3] if len(g.components) == n else ["count %d" % len(g.components)]
        except Exception as e:
            return dict(reproduced=True, signature="C01:many-components", detail="file with %d components: %s: %s" % (n, type(e).__name__, e))
        return dict(reproduced=bool(bad), signature="C01:many-components", detail="file with %d components differs at %s" % (n, bad))
    vals = _unhex(job.get("witness"))
    if not vals:
        return dict(reproduced=False, detail="no witness recorded")
    shape = job["shape"]
    key = vals["key"]
    f = build_file(bf, shape, vals)
    problems = []
    for mode in ("stream", "path"):
        try:
            if mode == "stream":
                s = io.StringIO()
                f.write_file(s, key)
                s.seek(0)
                g = bf.Bf3File.read_file(s, True, key)
            else:
                d = tempfile.mkdtemp(prefix="c01replay")
                p = os.path.join(d, "x.bf3")
                try:
                    f.write_file(p, key)
                    g = bf.Bf3File.read_file(p, True, key)
                finally:
                    try:
                        os.unlink(p)
                    except OSError:
                        pass
                    os.rmdir(d)
        except Exception as e:
            problems.append("%s: %s: %s" % (mode, type(e).__name__, e))
            continue
        if len(g.components) != len(f.components):
            problems.append(mode + ": component count")
            continue
        for i, (c, b) in enumerate(zip(shape, g.components)):
            want = (vals["pay%d" % i], vals["al%d" % i], [(tid, vals["tag%d_%d" % (i, t)]) for t, (tid, tl) in enumerate(c["tags"])], bool(c.get("enc")))
            got = (b.blob, b.actual_len, list(b.description.items()), b.encrypt_by_session_key)
            if want != got:
                problems.append("%s: component %d differs: wrote %r read %r" % (mode, i, want, got))
    return dict(reproduced=bool(problems), detail="; ".join(problems)[:800], signature="C01:bin-roundtrip")
