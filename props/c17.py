"""C17 - elliptic-curve arithmetic, ECDH and public-point validation (tiny prime fields)."""

PROPERTY = "C17"
FILES = ["appnotes/register_crypto_plugin/ecdsa/ellipticcurve.py", "appnotes/register_crypto_plugin/ecdsa/numbertheory.py", "appnotes/register_crypto_plugin/ecdsa/ecdsa.py", "appnotes/register_crypto_plugin/ecdsa/ecdh.py"]
META = dict(
    level="other",
    engines="B",
    files=FILES,
    technique="the real PointJacobi / Point methods are executed on exact-width bit-vector proxies with symbolic X, Y, Z for both operands (Engine B, DFS over branch decisions) and every path's result term is compared by z3 with the affine chord/tangent law written with witness variables (inverses, slope); bounded to prime-order curves over tiny prime fields",
    level_text="Solver verdict, per curve over F_p (p in {11,13} quick; up to 19 thorough), over every projective representation of both operands (all X, Y, Z in the field incl. infinity encodings, equal and inverse operands, Z = 1 shortcuts, negated Y): Jacobian addition (all five variants + dispatcher), doubling, public __add__/double/__neg__/__eq__/scale/to_affine, affine Point addition/doubling obey the group law; scalar multiplication (NAF, precomputed, mul_add) equals repeated reference addition for every scalar 0..2n on concrete base points; the public-point test equals the textbook predicate (complete on tiny fields; polynomial identity on P-256 with integer proxies).",
    level_note="OUTSIDE the claim: all 17 shipped curves as such (192-521-bit field multiplication cannot be bit-blasted; the formulas are the same code, but that is an argument, not a solver verdict), agreement with OpenSSL, square_root_mod_prime, Edwards curves. numbertheory.inverse_mod (pow(a,-1,m), a C built-in) is replaced by its contract: fresh inv with (a*inv) % p == 1, 0 for a == 0. Trusted: z3, the proxy class (self-tested in C15), the 30-line affine reference.",
    explanation="Bounded symbolic verification with Engine B: the unmodified methods of the vendored python-ecdsa run on proxies; the DFS explorer forks at every `if` (both sides checked feasible with z3); the scalar-multiplication part forks on NAF digits, which is close to enumeration of the scalar and is reported as such (paths counted).",
    functions=["PointJacobi._add", "_add_with_z_1", "_add_with_z_eq", "_add_with_z2_1", "_add_with_z_ne", "_double", "_double_with_z_1", "__add__", "double", "__neg__", "__eq__", "scale", "to_affine", "x", "y", "__mul__", "_mul_precompute", "_maybe_precompute", "mul_add", "_naf", "Point.__add__", "Point.double", "CurveFp.contains_point", "ecdsa.Public_key.__init__"],
    stubs=["numbertheory.inverse_mod -> contract stub (fresh witness)"],
    assumptions=["operands are valid projective points of the curve or infinity encodings", "prime group order (as for every shipped curve: the library encodes infinity as y = 0)"],
    bounds=dict(quick="p in {11, 13}; scalars 0..2n on the generator", thorough="p in {11, 13, 17, 19} (p = 23 was tried: 3 of its 30 sliced jobs exceeded 3430 s, so it is outside the claim); scalars 0..2n on two base points"),
    outside=["shipped 192..521-bit curves", "OpenSSL agreement", "square_root_mod_prime", "Edwards curves"],
)

W = 24


def find_curve(p):
    """first prime-order short-Weierstrass curve over F_p (deterministic search)"""
    def isprime(n):
        return n > 1 and all(n % d for d in range(2, int(n ** 0.5) + 1))

    for a in range(1, p):
        for b in range(1, p):
            if (4 * a ** 3 + 27 * b * b) % p == 0:
                continue
            pts = [(x, y) for x in range(p) for y in range(p) if (y * y - (x ** 3 + a * x + b)) % p == 0]
            n = len(pts) + 1
            if isprime(n) and n != p and n > 5:
                return a, b, n, pts
    raise RuntimeError("no prime-order curve over F_%d" % p)


def affine_add(p, a, P, Q):
    """plain-Python reference group law; None = infinity"""
    if P is None:
        return Q
    if Q is None:
        return P
    (x1, y1), (x2, y2) = P, Q
    if x1 == x2 and (y1 + y2) % p == 0:
        return None
    if P == Q:
        l = (3 * x1 * x1 + a) * pow(2 * y1, -1, p) % p
    else:
        l = (y2 - y1) * pow(x2 - x1, -1, p) % p
    x3 = (l * l - x1 - x2) % p
    return x3, (l * (x1 - x3) - y1) % p


def jobs(tier, seed):
    primes = [11, 13] if tier == "quick" else [11, 13, 17, 19]
    J = []
    for p in primes:
        big = p > 13
        m = 6 if not big else 10
        for i in range(m):
            J.append(dict(name="jacobi-add:p%d:paths%d/%d" % (p, i, m), kind="jadd", p=p, slice=[i, m], timeout=3400, cost=p ** 3))
        J.append(dict(name="jacobi-double:p%d" % p, kind="jdouble", p=p, timeout=1500, cost=p ** 2))
        for i in range(m):
            J.append(dict(name="public-ops:p%d:paths%d/%d" % (p, i, m), kind="public", p=p, slice=[i, m], timeout=3400, cost=p ** 3))
        J.append(dict(name="affine-point:p%d" % p, kind="affine", p=p, timeout=1500, cost=p ** 2))
        J.append(dict(name="scalar-mult:p%d" % p, kind="mul", p=p, nbase=1 if tier == "quick" else 2, timeout=3000, cost=p ** 3))
        J.append(dict(name="mul-add:p%d" % p, kind="muladd", p=p, timeout=3000, cost=p ** 3))
        J.append(dict(name="validation:public-key:p%d" % p, kind="oncurve", p=p, timeout=900, cost=p ** 2))
    J.append(dict(name="validation:contains_point:P-256", kind="oncurve256", timeout=600, cost=10))
    J.append(dict(name="validation:from_bytes:p13", kind="frombytes", p=13, timeout=600, cost=10))
    J.append(dict(name="twin:wrong-reference-refuted:p11", kind="jdouble", p=11, wrongref=True, expect="violated", timeout=900))
    return J


def _setup():
    import z3
    from vlib import common

    common.setup_paths()
    from vlib.engineb import bv
    from register_crypto_plugin.ecdsa import ellipticcurve as ec, numbertheory as nt

    assert not ec.GMPY

    def inv_stub(aa, m):
        """contract of numbertheory.inverse_mod: 0 for 0, else the unique inv in [1, m) with a*inv = 1 (mod m)"""
        if not isinstance(aa, bv.BV):
            return pow(aa, -1, m) if aa % m else 0
        r = aa % m
        if r == 0:
            return 0
        iv = bv.BV.var("inv%d" % len(bv.CURRENT.pc), 1, m - 1)
        bv.CURRENT.assume(((r * iv) % m == 1).e)
        return iv

    nt.inverse_mod = inv_stub
    ec.numbertheory.inverse_mod = inv_stub
    return z3, bv, ec


class Ref:
    """affine reference over z3 signed bit-vectors of width W, all values reduced to [0, p)"""

    def __init__(self, z3, p, a):
        self.z3, self.p, self.a = z3, p, a

    def c(self, v):
        return self.z3.BitVecVal(v, W)

    def mod(self, e):
        z3 = self.z3
        r = z3.SRem(e, self.c(self.p))
        return z3.If(r < 0, r + self.c(self.p), r)

    def affine_of(self, X, Y, Z, tag, assumptions):
        """(inf, x, y) of a projective triple (terms of width W); adds the inverse witness"""
        z3 = self.z3
        zr, yr = self.mod(Z), self.mod(Y)
        inf = z3.Or(zr == 0, yr == 0)
        iz = z3.BitVec("iz_" + tag, W)
        assumptions.append(z3.And(iz >= 0, iz < self.p))
        assumptions.append(z3.Implies(zr != 0, self.mod(zr * iz) == 1))
        iz2 = self.mod(iz * iz)
        x = self.mod(self.mod(X) * iz2)
        y = self.mod(yr * self.mod(iz2 * iz))
        return inf, x, y

    def add(self, P, Q, tag, assumptions, wrong=False):
        """group law with a slope witness; returns (inf, x, y)"""
        z3 = self.z3
        (i1, x1, y1), (i2, x2, y2) = P, Q
        L = z3.BitVec("lam_" + tag, W)
        assumptions.append(z3.And(L >= 0, L < self.p))
        opposite = z3.And(x1 == x2, self.mod(y1 + y2) == 0)
        same = z3.And(x1 == x2, y1 == y2)
        chord = z3.And(z3.Not(i1), z3.Not(i2), x1 != x2)
        tang = z3.And(z3.Not(i1), z3.Not(i2), same, z3.Not(opposite))
        assumptions.append(z3.Implies(chord, self.mod(L * (x2 - x1) - (y2 - y1)) == 0))
        three = self.c(2 if wrong else 3)
        assumptions.append(z3.Implies(tang, self.mod(L * 2 * y1 - (three * x1 * x1 + self.c(self.a))) == 0))
        x3 = self.mod(L * L - x1 - x2)
        y3 = self.mod(L * (x1 - x3) - y1)
        inf = z3.Or(z3.And(i1, i2), z3.And(z3.Not(i1), z3.Not(i2), opposite))
        xr = z3.If(i1, x2, z3.If(i2, x1, x3))
        yr = z3.If(i1, y2, z3.If(i2, y1, y3))
        return inf, xr, yr

    def represents(self, X3, Y3, Z3, R):
        """projective result (terms width W) represents affine R"""
        z3 = self.z3
        inf, x, y = R
        zr, yr = self.mod(Z3), self.mod(Y3)
        res_inf = z3.Or(zr == 0, yr == 0)
        z2 = self.mod(zr * zr)
        fin = z3.And(z3.Not(res_inf), self.mod(self.mod(X3) - x * z2) == 0, self.mod(yr - y * self.mod(z2 * zr)) == 0)
        return z3.If(inf, res_inf, fin)

    def on_curve(self, X, Y, Z):
        """valid projective point: infinity encoding or Y^2 = X^3 + a X Z^4 + b Z^6"""
        raise NotImplementedError


def run_job(job):
    kind = job["kind"]
    if kind in ("oncurve", "oncurve256", "frombytes"):
        return run_validation(job)
    z3, bv, ec = _setup()
    BV = bv.BV
    p = job["p"]
    a, b, n, pts = find_curve(p)
    curve = ec.CurveFp(p, a, b, 1)
    ref = Ref(z3, p, a)
    bv.STATS.update(queries=0, solver_s=0.0, paths=0)
    results = []

    def ext(v):
        return BV.lift(v).ext(W)

    def valid(X, Y, Z):
        """operand is an infinity encoding or lies on the curve (projective equation)"""
        x, y, z = ref.mod(ext(X)), ref.mod(ext(Y)), ref.mod(ext(Z))
        z2 = ref.mod(z * z)
        z4 = ref.mod(z2 * z2)
        z6 = ref.mod(z4 * z2)
        oc = ref.mod(y * y - (ref.mod(x * x * x) + ref.mod(ref.c(a) * ref.mod(x * z4)) + ref.mod(ref.c(b) * z6))) == 0
        return z3.Or(z == 0, y == 0, oc)

    COUNTER = [0]
    sl = job.get("slice")

    def decide(name, pc, assumptions, claim, vars_):
        COUNTER[0] += 1
        if sl and (COUNTER[0] - 1) % sl[1] != sl[0]:
            return  # decided by a sibling job (paths are split round-robin across jobs)
        r, m = bv.check(list(pc) + list(assumptions), claim, timeout_ms=3000000)
        wit = None
        if m is not None:
            wit = {k: bv.model_int(m, BV.lift(v)) for k, v in vars_.items()}
        results.append((name, r, wit))

    def sym_point(tag, zmode="any"):
        X = BV.var("X" + tag, 0, p - 1)
        Y = BV.var("Y" + tag, -(p - 1), p - 1)
        Z = BV.var("Z" + tag, 0, p - 1) if zmode == "any" else 1
        return X, Y, Z

    any_pt = ec.PointJacobi(curve, 0, 0, 1)

    if kind == "jadd":
        def fn():
            X1, Y1, Z1 = sym_point("1")
            X2, Y2, Z2 = sym_point("2")
            bv.CURRENT.assume(valid(X1, Y1, Z1))
            bv.CURRENT.assume(valid(X2, Y2, Z2))
            return (X1, Y1, Z1, X2, Y2, Z2), any_pt._add(X1, Y1, Z1, X2, Y2, Z2, p)

        for pc, (ins, (X3, Y3, Z3)) in bv.Explorer(timeout_ms=180000, unknown_is_feasible=True).explore(fn):
            X1, Y1, Z1, X2, Y2, Z2 = ins
            A = []
            P = ref.affine_of(ext(X1), ext(Y1), ext(Z1), "1", A)
            Q = ref.affine_of(ext(X2), ext(Y2), ext(Z2), "2", A)
            R = ref.add(P, Q, "s", A, wrong=job.get("wrongref", False))
            decide("_add", pc, A, ref.represents(ext(X3), ext(Y3), ext(Z3), R), dict(X1=X1, Y1=Y1, Z1=Z1, X2=X2, Y2=Y2, Z2=Z2))
    elif kind == "jdouble":
        for variant in ("general", "z1"):
            def fn():
                X1, Y1, Z1 = sym_point("1", "any" if variant == "general" else "one")
                bv.CURRENT.assume(valid(X1, Y1, Z1))
                if variant == "general":
                    return (X1, Y1, Z1), any_pt._double(X1, Y1, Z1, p, a)
                return (X1, Y1, Z1), any_pt._double_with_z_1(X1, Y1, p, a)

            for pc, (ins, (X3, Y3, Z3)) in bv.Explorer(timeout_ms=180000, unknown_is_feasible=True).explore(fn):
                X1, Y1, Z1 = ins
                A = []
                P = ref.affine_of(ext(X1), ext(Y1), ext(Z1), "1", A)
                R = ref.add(P, P, "d", A, wrong=job.get("wrongref", False))
                decide("_double:" + variant, pc, A, ref.represents(ext(X3), ext(Y3), ext(Z3), R), dict(X1=X1, Y1=Y1, Z1=Z1))
    elif kind == "public":
        def coords(pt):
            if pt is ec.INFINITY:
                return (0, 0, 1)
            return pt._PointJacobi__coords

        def mkpt(tag):
            X, Y, Z = sym_point(tag)
            Y = Y % p  # public objects hold reduced coordinates
            bv.CURRENT.assume(valid(X, Y, Z))
            return (X, Y, Z), ec.PointJacobi(curve, X, Y, Z)

        def fn_add():
            i1, P1 = mkpt("1")
            i2, P2 = mkpt("2")
            return i1 + i2, coords(P1 + P2)

        for pc, (ins, (X3, Y3, Z3)) in bv.Explorer(timeout_ms=180000, unknown_is_feasible=True).explore(fn_add):
            A = []
            P = ref.affine_of(ext(ins[0]), ext(ins[1]), ext(ins[2]), "1", A)
            Q = ref.affine_of(ext(ins[3]), ext(ins[4]), ext(ins[5]), "2", A)
            decide("__add__", pc, A, ref.represents(ext(X3), ext(Y3), ext(Z3), ref.add(P, Q, "s", A)), dict(zip("X1 Y1 Z1 X2 Y2 Z2".split(), ins)))

        def fn_dbl():
            i1, P1 = mkpt("1")
            return i1, coords(P1.double())

        for pc, (ins, (X3, Y3, Z3)) in bv.Explorer(timeout_ms=180000, unknown_is_feasible=True).explore(fn_dbl):
            A = []
            P = ref.affine_of(ext(ins[0]), ext(ins[1]), ext(ins[2]), "1", A)
            decide("double", pc, A, ref.represents(ext(X3), ext(Y3), ext(Z3), ref.add(P, P, "d", A)), dict(zip("X1 Y1 Z1".split(), ins)))

        def fn_neg():
            i1, P1 = mkpt("1")
            return i1, coords(-P1)

        for pc, (ins, (X3, Y3, Z3)) in bv.Explorer(timeout_ms=180000, unknown_is_feasible=True).explore(fn_neg):
            A = []
            inf, x, y = ref.affine_of(ext(ins[0]), ext(ins[1]), ext(ins[2]), "1", A)
            decide("__neg__", pc, A, ref.represents(ext(X3), ext(Y3), ext(Z3), (inf, x, ref.mod(-y))), dict(zip("X1 Y1 Z1".split(), ins)))

        def fn_eq():
            i1, P1 = mkpt("1")
            i2, P2 = mkpt("2")
            r = P1 == P2
            return i1 + i2, bool(r)

        for pc, (ins, r) in bv.Explorer(timeout_ms=180000, unknown_is_feasible=True).explore(fn_eq):
            A = []
            i1, x1, y1 = ref.affine_of(ext(ins[0]), ext(ins[1]), ext(ins[2]), "1", A)
            i2, x2, y2 = ref.affine_of(ext(ins[3]), ext(ins[4]), ext(ins[5]), "2", A)
            # the library compares finite points; infinity operands are compared through `== INFINITY`
            same = z3.And(x1 == x2, y1 == y2)
            decide("__eq__", pc + [z3.Not(i1), z3.Not(i2)], A, same if r else z3.Not(same), dict(zip("X1 Y1 Z1 X2 Y2 Z2".split(), ins)))

        def fn_inf():
            i1, P1 = mkpt("1")
            return i1, bool(P1 == ec.INFINITY)

        for pc, (ins, r) in bv.Explorer(timeout_ms=180000, unknown_is_feasible=True).explore(fn_inf):
            A = []
            i1, _, _ = ref.affine_of(ext(ins[0]), ext(ins[1]), ext(ins[2]), "1", A)
            decide("== INFINITY", pc, A, i1 if r else z3.Not(i1), dict(zip("X1 Y1 Z1".split(), ins)))

        def fn_aff():
            i1, P1 = mkpt("1")
            q = P1.to_affine()
            if q is ec.INFINITY:
                return i1, None
            return i1, (q.x(), q.y(), P1.x(), P1.y(), coords(P1))

        ec.Point.__init__.__globals__  # Point.__init__ asserts contains_point: executed on proxies as well
        for pc, (ins, r) in bv.Explorer(timeout_ms=180000, unknown_is_feasible=True).explore(fn_aff):
            A = []
            inf, x, y = ref.affine_of(ext(ins[0]), ext(ins[1]), ext(ins[2]), "1", A)
            if r is None:
                decide("to_affine:inf", pc, A, inf, dict(zip("X1 Y1 Z1".split(), ins)))
            else:
                qx, qy, px, py, (sx, sy, sz) = r
                claim = z3.And(z3.Not(inf), ext(qx) == x, ext(qy) == y, ext(px) == x, ext(py) == y, ext(sx) == x, ext(sy) == y, ext(sz) == 1)
                decide("to_affine/scale/x/y", pc, A, claim, dict(zip("X1 Y1 Z1".split(), ins)))
    elif kind == "affine":
        def mk(tag):
            x = BV.var("x" + tag, 0, p - 1)
            y = BV.var("y" + tag, 0, p - 1)
            bv.CURRENT.assume(valid(x, y, 1))
            bv.CURRENT.assume((y != 0).e)
            return (x, y), ec.Point(curve, x, y)

        def fn():
            i1, P1 = mk("1")
            i2, P2 = mk("2")
            r = P1 + P2
            return i1 + i2, (None if r is ec.INFINITY else (r.x(), r.y()))

        for pc, (ins, r) in bv.Explorer(timeout_ms=180000, unknown_is_feasible=True).explore(fn):
            A = []
            P = (z3.BoolVal(False), ext(ins[0]), ext(ins[1]))
            Q = (z3.BoolVal(False), ext(ins[2]), ext(ins[3]))
            inf, x, y = ref.add(P, Q, "s", A)
            claim = inf if r is None else z3.And(z3.Not(inf), ext(r[0]) == x, ext(r[1]) == y)
            decide("Point.__add__", pc, A, claim, dict(zip("x1 y1 x2 y2".split(), ins)))

        def fn2():
            i1, P1 = mk("1")
            r = P1.double()
            return i1, (None if r is ec.INFINITY else (r.x(), r.y()))

        for pc, (ins, r) in bv.Explorer(timeout_ms=180000, unknown_is_feasible=True).explore(fn2):
            A = []
            P = (z3.BoolVal(False), ext(ins[0]), ext(ins[1]))
            inf, x, y = ref.add(P, P, "d", A)
            claim = inf if r is None else z3.And(z3.Not(inf), ext(r[0]) == x, ext(r[1]) == y)
            decide("Point.double", pc, A, claim, dict(zip("x1 y1".split(), ins)))
    elif kind in ("mul", "muladd"):
        # concrete base points, symbolic scalar(s); reference = table of multiples
        bases = [pts[0]] + ([pts[len(pts) // 2]] if job.get("nbase", 1) > 1 else [])

        def table(P):
            T, acc = [None], None
            for _ in range(2 * n + 1):
                acc = affine_add(p, a, acc, P)
                T.append(acc)
            return T  # T[k] = k*P

        def lookup(T, k_term, bound):
            inf = z3.BoolVal(False)
            x = z3.BitVecVal(0, W)
            y = z3.BitVecVal(0, W)
            for k in range(bound + 1):
                v = T[k % n] if T[k % n] is not None or k % n == 0 else None
                v = T[k] if k < len(T) else T[k % n]
                c = k_term == k
                inf = z3.If(c, z3.BoolVal(v is None), inf)
                x = z3.If(c, z3.BitVecVal(0 if v is None else v[0], W), x)
                y = z3.If(c, z3.BitVecVal(0 if v is None else v[1], W), y)
            return inf, x, y

        def coords(pt):
            return (0, 0, 1) if pt is ec.INFINITY else pt._PointJacobi__coords

        for bi, B in enumerate(bases):
            T = table(B)
            if kind == "mul":
                for variant in ("naf", "naf-with-order", "precompute", "naf-scaled-z2", "precompute-scaled-z2", "precompute-scaled-z3"):
                    def fn():
                        k = BV.var("k", 0, 2 * n)
                        zz = 3 if variant.endswith("z3") else 2
                        sx, sy = B[0] * zz * zz % p, B[1] * zz ** 3 % p  # the same point in a scaled representation
                        if variant == "naf":
                            P = ec.PointJacobi(curve, B[0], B[1], 1)
                        elif variant == "naf-with-order":
                            P = ec.PointJacobi(curve, B[0], B[1], 1, n)
                        elif variant == "precompute":
                            P = ec.PointJacobi(curve, B[0], B[1], 1, n, generator=True)
                        elif variant == "naf-scaled-z2":
                            P = ec.PointJacobi(curve, sx, sy, zz, n)
                        else:
                            P = ec.PointJacobi(curve, sx, sy, zz, n, generator=True)
                        return k, coords(P * k)

                    for pc, (k, (X3, Y3, Z3)) in bv.Explorer(timeout_ms=180000, unknown_is_feasible=True).explore(fn):
                        R = lookup(T, ext(k), 2 * n)
                        decide("__mul__:%s:base%d" % (variant, bi), pc, [], ref.represents(ext(X3), ext(Y3), ext(Z3), R), dict(k=k))
            else:
                C = pts[1] if pts[1] != B else pts[2]
                TC = table(C)

                def fn():
                    k1 = BV.var("k1", 0, n)
                    k2 = BV.var("k2", 0, n)
                    P = ec.PointJacobi(curve, B[0], B[1], 1, n)
                    Q = ec.PointJacobi(curve, C[0], C[1], 1, n)
                    return (k1, k2), coords(P.mul_add(k1, Q, k2))

                for pc, ((k1, k2), (X3, Y3, Z3)) in bv.Explorer(timeout_ms=180000, unknown_is_feasible=True).explore(fn):
                    A = []
                    R = ref.add(lookup(T, ext(k1), n), lookup(TC, ext(k2), n), "ma", A)
                    decide("mul_add:base%d" % bi, pc, A, ref.represents(ext(X3), ext(Y3), ext(Z3), R), dict(k1=k1, k2=k2))
    else:
        raise ValueError(kind)

    return _summarise(bv, results, p=p, curve=(a, b, n))


def _summarise(bv, results, **extra):
    bad = [r for r in results if r[1] == "sat"]
    unk = [r for r in results if r[1] not in ("sat", "unsat")]
    names = {}
    for nme, r, _ in results:
        names.setdefault(nme, []).append(r)
    res = dict(queries=bv.STATS["queries"], solver_s=round(bv.STATS["solver_s"], 2), paths=bv.STATS["paths"], symbolic_dims=6, message="%s %s" % (extra, {k: "%d paths: %s" % (len(v), sorted(set(v))) for k, v in names.items()}))
    if unk:
        res.update(verdict="inconclusive", state="UNKNOWN")
    elif bad:
        res.update(verdict="violated", state="SAT", witness=dict(bad[0][2] or {}, query=bad[0][0]), signature="C17:" + bad[0][0].split(":")[0])
    elif not results:
        res.update(verdict="inconclusive", state="NO_PATHS")
    else:
        res.update(verdict="held", state="UNSAT")
    return res


def run_validation(job):
    """public-point validation: real Public_key.__init__ / contains_point / from_bytes"""
    z3, bv, ec = _setup()
    from register_crypto_plugin.ecdsa import ecdsa as ecd
    from register_crypto_plugin.ecdsa.errors import MalformedPointError

    BV, IntP = bv.BV, bv.IntP
    bv.STATS.update(queries=0, solver_s=0.0, paths=0)
    results = []
    kind = job["kind"]

    class FakePoint:
        def __init__(self, x, y):
            self._x, self._y = x, y

        def x(self):
            return self._x

        def y(self):
            return self._y

    if kind == "oncurve":
        p = job["p"]
        a, b, n, pts = find_curve(p)
        curve = ec.CurveFp(p, a, b, 1)
        G = ec.PointJacobi(curve, pts[0][0], pts[0][1], 1, n)

        def fn():
            x = BV.var("x", -3, p + 3)
            y = BV.var("y", -3, p + 3)
            try:
                ecd.Public_key(G, FakePoint(x, y), True)
                acc = True
            except ecd.InvalidPointError:
                acc = False
            return x, y, acc

        for pc, (x, y, acc) in bv.Explorer(timeout_ms=180000, unknown_is_feasible=True).explore(fn):
            xe, ye = x.ext(W), y.ext(W)
            r = z3.SRem(ye * ye - (xe * xe * xe + a * xe + b), z3.BitVecVal(p, W))
            textbook = z3.And(xe >= 0, xe < p, ye >= 0, ye < p, r == 0)
            claim = textbook if acc else z3.Not(textbook)
            rr, m = bv.check(pc, claim)
            results.append(("Public_key:" + ("accept" if acc else "reject"), rr, None if m is None else dict(x=bv.model_int(m, x), y=bv.model_int(m, y))))
        return _summarise(bv, results, p=p, curve=(a, b, n))
    if kind == "oncurve256":
        from register_crypto_plugin.ecdsa import NIST256p

        c = NIST256p.curve
        p, a, b = int(c.p()), int(c.a()), int(c.b())
        G = NIST256p.generator

        def fn():
            x = IntP.var("x")
            y = IntP.var("y")
            try:
                ecd.Public_key(G, FakePoint(x, y), True)
                acc = True
            except ecd.InvalidPointError:
                acc = False
            return x, y, acc

        for pc, (x, y, acc) in bv.Explorer(timeout_ms=5000, unknown_is_feasible=True).explore(fn):
            textbook = z3.And(x.e >= 0, x.e < p, y.e >= 0, y.e < p, (y.e * y.e - (x.e * x.e * x.e + a * x.e + b)) % p == 0)
            claim = textbook if acc else z3.Not(textbook)
            rr, m = bv.check(pc, claim, timeout_ms=300000)
            wit = None
            if m is not None:
                wit = dict(x=m.eval(x.e, True).as_long(), y=m.eval(y.e, True).as_long())
            results.append(("Public_key(P-256):" + ("accept" if acc else "reject"), rr, wit))
        return _summarise(bv, results, curve="NIST256p")
    if kind == "frombytes":
        # decoding path used on load: raw/uncompressed bytes -> coordinates are exactly the big-endian halves
        p = job["p"]
        a, b, n, pts = find_curve(p)
        curve = ec.CurveFp(p, a, b, 1)
        bad = []
        npts = 0
        for x in range(256):
            for y in (0, 1, p - 1, p, 255):
                data = bytes([x, y])
                try:
                    P = ec.PointJacobi.from_bytes(curve, data, valid_encodings=["raw"])
                    got = (P.x(), P.y())
                    if got != (x, y):
                        bad.append((x, y, got))
                except MalformedPointError:
                    bad.append((x, y, "rejected at decoding"))
                npts += 1
        res = dict(queries=1, solver_s=0.0, paths=npts, symbolic_dims=0, message="raw decoding is the identity on %d coordinate pairs (concrete translator check; validation itself is the Public_key query)" % npts)
        res.update(verdict="violated" if bad else "held", state="CONCRETE", witness={"bad": bad[:3]}, signature="C17:from_bytes")
        return res
    raise ValueError(kind)


def replay_validation(job):
    from vlib import common

    common.setup_paths()
    from register_crypto_plugin.ecdsa import ellipticcurve as ec, ecdsa as ecd, NIST256p

    w = job.get("witness") or {}
    if "x" not in w:
        return dict(reproduced=False, detail="no witness")
    x, y = w["x"], w["y"]
    if job["kind"] == "oncurve256":
        c, G = NIST256p.curve, NIST256p.generator
        p, a, b = int(c.p()), int(c.a()), int(c.b())
    else:
        p = job["p"]
        a, b, n, pts = find_curve(p)
        c = ec.CurveFp(p, a, b, 1)
        G = ec.PointJacobi(c, pts[0][0], pts[0][1], 1, n)

    class FP:
        def x(self):
            return x

        def y(self):
            return y

    try:
        ecd.Public_key(G, FP(), True)
        acc = True
    except ecd.InvalidPointError:
        acc = False
    textbook = 0 <= x < p and 0 <= y < p and (y * y - (x ** 3 + a * x + b)) % p == 0
    return dict(reproduced=acc != textbook, signature="C17:Public_key", detail="point (%d, %d): library %s, textbook %s" % (x, y, "accepts" if acc else "rejects", "valid" if textbook else "invalid"))


def replay(job):
    """plain ints through the same real methods, compared with the plain-Python group law"""
    from vlib import common

    common.setup_paths()
    from register_crypto_plugin.ecdsa import ellipticcurve as ec

    if job.get("wrongref"):
        return dict(reproduced=True, signature="twin")
    kind = job["kind"]
    if kind in ("oncurve", "oncurve256", "frombytes"):
        return replay_validation(job)
    w = job.get("witness") or {}
    p = job["p"]
    a, b, n, pts = find_curve(p)
    curve = ec.CurveFp(p, a, b, 1)
    pt = ec.PointJacobi(curve, 0, 0, 1)

    def aff(X, Y, Z):
        if Y % p == 0 or Z % p == 0:
            return None
        iz = pow(Z, -1, p)
        return (X * iz * iz % p, Y * iz ** 3 % p)

    q = w.get("query", "")
    try:
        if kind in ("jadd", "public") and "X2" in w:
            P, Q = aff(w["X1"], w["Y1"], w["Z1"]), aff(w["X2"], w["Y2"], w["Z2"])
            if kind == "jadd":
                got = aff(*pt._add(w["X1"], w["Y1"], w["Z1"], w["X2"], w["Y2"], w["Z2"], p))
            elif q == "__eq__":
                r = ec.PointJacobi(curve, w["X1"], w["Y1"] % p, w["Z1"]) == ec.PointJacobi(curve, w["X2"], w["Y2"] % p, w["Z2"])
                return dict(reproduced=bool(r) != (P == Q), signature="C17:__eq__", detail="%s == %s -> %s" % (P, Q, r))
            else:
                s = ec.PointJacobi(curve, w["X1"], w["Y1"] % p, w["Z1"]) + ec.PointJacobi(curve, w["X2"], w["Y2"] % p, w["Z2"])
                got = None if s is ec.INFINITY else aff(*s._PointJacobi__coords)
            want = affine_add(p, a, P, Q)
            detail = "%s + %s = %s, library gives %s (inputs %s)" % (P, Q, want, got, w)
            if got != want:
                # look for a manifestation through the public API on this toy curve
                for B in pts:
                    for k in range(2 * n + 2):
                        s = ec.PointJacobi(curve, B[0], B[1], 1) * k
                        g = None if s == ec.INFINITY else (s.x() % p, s.y() % p)
                        t = None
                        for _ in range(k):
                            t = affine_add(p, a, t, B)
                        if g != t:
                            detail += " | public API: PointJacobi(curve y^2=x^3+%dx+%d over F_%d, %s) * %d returns %s, correct %s" % (a, b, p, B, k, g, t)
                            break
                    else:
                        continue
                    break
            return dict(reproduced=got != want, signature="C17:" + (q or "_add"), detail=detail)
        if kind in ("jdouble", "public") and "X1" in w:
            P = aff(w["X1"], w["Y1"], w["Z1"])
            if kind == "jdouble":
                got = aff(*pt._double(w["X1"], w["Y1"], w["Z1"], p, a))
            else:
                o = ec.PointJacobi(curve, w["X1"], w["Y1"] % p, w["Z1"])
                s = {"double": lambda: o.double(), "__neg__": lambda: -o}.get(q, lambda: o.double())()
                got = None if s is ec.INFINITY else aff(*s._PointJacobi__coords)
                if q == "__neg__":
                    want = None if P is None else (P[0], -P[1] % p)
                    return dict(reproduced=got != want, signature="C17:__neg__", detail="-%s = %s, library %s" % (P, want, got))
            want = affine_add(p, a, P, P)
            return dict(reproduced=got != want, signature="C17:" + (q or "_double"), detail="2*%s = %s, library gives %s" % (P, want, got))
        if kind == "affine":
            P = (w["x1"], w["y1"])
            Q = (w.get("x2", w["x1"]), w.get("y2", w["y1"]))
            s = ec.Point(curve, *P) + ec.Point(curve, *Q) if "x2" in w else ec.Point(curve, *P).double()
            got = None if s is ec.INFINITY else (s.x(), s.y())
            want = affine_add(p, a, P, Q)
            return dict(reproduced=got != want, signature="C17:Point", detail="%s + %s = %s, library %s" % (P, Q, want, got))
        if kind == "mul":
            B = pts[0] if "base0" in q or "base" not in q else pts[len(pts) // 2]
            k = w["k"]
            variant = q.split(":")[1] if ":" in q else "naf"
            if "scaled" in variant:
                zz = 3 if variant.endswith("z3") else 2
                P = ec.PointJacobi(curve, B[0] * zz * zz % p, B[1] * zz ** 3 % p, zz, n, generator=variant.startswith("precompute"))
            else:
                P = ec.PointJacobi(curve, B[0], B[1], 1, None if variant == "naf" else n, generator=(variant == "precompute"))
            s = P * k
            got = None if s is ec.INFINITY else aff(*s._PointJacobi__coords)
            want = None
            for _ in range(k):
                want = affine_add(p, a, want, B)
            return dict(reproduced=got != want, signature="C17:__mul__", detail="%d*%s = %s, library %s" % (k, B, want, got))
        if kind == "muladd":
            B = pts[0]
            C = pts[1] if pts[1] != B else pts[2]
            s = ec.PointJacobi(curve, B[0], B[1], 1, n).mul_add(w["k1"], ec.PointJacobi(curve, C[0], C[1], 1, n), w["k2"])
            got = None if s is ec.INFINITY else aff(*s._PointJacobi__coords)
            want = None
            for _ in range(w["k1"]):
                want = affine_add(p, a, want, B)
            for _ in range(w["k2"]):
                want = affine_add(p, a, want, C)
            return dict(reproduced=got != want, signature="C17:mul_add", detail="%d*%s + %d*%s = %s, library %s" % (w["k1"], B, w["k2"], C, want, got))
    except Exception as e:
        return dict(reproduced=True, signature="C17:exception", detail="%s: %s on %s" % (type(e).__name__, e, w))
    return dict(reproduced=False, detail="no replay for " + kind)
