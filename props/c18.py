"""C18 (partial) - ECDSA signatures: encodings, range checks, digest truncation, malformed-signature discipline, sign/verify on tiny curves."""
import os

from props import c19

PROPERTY = "C18"
FILES = [
    "appnotes/register_crypto_plugin/ecdsa/util.py",
    "appnotes/register_crypto_plugin/ecdsa/der.py",
    "appnotes/register_crypto_plugin/ecdsa/ecdsa.py",
    "appnotes/register_crypto_plugin/ecdsa/keys.py",
]
META = dict(
    level="other",
    engines="B",
    files=FILES,
    technique="the real signature encoders/decoders (util.sigencode_*/sigdecode_*), Public_key.verifies, Private_key.sign, VerifyingKey.verify_digest and keys._truncate_and_convert_digest are executed on bit-vector proxies (Engine B path explorer over the current source, C-level conversions rewritten at import into exact terms as for C19); z3 decides every path's claim against an X.690 / SEC1 / FIPS 186-4 reference written in this file; counterexamples are replayed on the unmodified package",
    level_text="Bounded solver verdict for NIST P-256 (order n): (1) for every r, s in 1..n-1 the string / strings / DER encoders produce the fixed-length big-endian resp. X.690 minimal encoding, the decoders invert them, and the canonising encoders output r and some s' in {s, n-s} (a signature equivalent to the original one; whether s' is the smaller of the two is decided by the library in floating point, `s > order / 2`, and is exact only outside a window of 2^191 values below n/2 - observed, not part of the property); (2) sigdecode_der on an arbitrary buffer of <= 5 bytes raises nothing but UnexpectedDER, sigdecode_string / strings reject every wrong length with MalformedSignature; every single-byte change at every position, every truncation and 1-2 byte extension of a valid DER and raw signature makes verify_digest raise BadSignatureError or (single-byte changes that still decode) reach the verification equation - never another exception, never True for truncated/extended input; (3) verifies() returns False and verify_digest raises BadSignatureError for every r or s outside 1..n-1 (all values below 2^257, which covers 0, n, n+1, 2^k), before any curve arithmetic is consulted; (4) the digest-to-number conversion equals FIPS 186-4 / RFC 6979 bits2int for every digest of 20..66 bytes on P-192, P-256, P-384, P-521 and raises BadDigestError exactly when the digest is longer than the curve and truncation is not allowed; (5) on a prime-order curve over F_11 (quick; F_13, F_17 thorough): for every private key, nonce and hash number, sign() yields (r, s) in range and verifies() accepts it (RSZeroError only when r or s would be 0), executed on the real Point arithmetic.",
    level_note="PARTIAL CLAIM. Outside: agreement with OpenSSL (no executable oracle in this technique family), RFC 6979 nonce derivation (HMAC through hashlib, a C boundary), tamper rejection for single bits of the message (rests on the hash) and of in-range r, s on full-size curves (needs 256-bit scalar multiplication, beyond bit-blasting; on tiny curves it is not a theorem), the other curves for (1)-(3), EdDSA. In (2) and (3) the curve arithmetic behind verifies() (inverse_mod, mul_add) is a nondeterministic stub: sound for 'no other exception' and 'rejected before arithmetic'. In (5) scalars are decided by path conditions, which on such small groups amounts to a solver-driven enumeration; stated as such.",
    explanation="Bounded symbolic verification with Engine B: codec and ECDSA modules loaded from /repo's current source through the C19 import hook; all branches are the real code; z3 decides each path's claim; witnesses are replayed on the unmodified modules.",
    functions=["util.sigencode_string", "util.sigencode_strings", "util.sigencode_der", "util.sigencode_string_canonize", "util.sigencode_strings_canonize", "util.sigencode_der_canonize", "util.sigdecode_string", "util.sigdecode_strings", "util.sigdecode_der", "ecdsa.Public_key.verifies", "ecdsa.Private_key.sign", "keys.VerifyingKey.verify_digest", "keys._truncate_and_convert_digest"],
    stubs=["import-time rewrite of the C-boundary call sites (see C19)", "numbertheory.inverse_mod and PointJacobi.mul_add / __mul__ behind verifies(): nondeterministic results on symbolic operands (jobs 2, 3 only)", "tiny-curve job: inverse_mod(a, n) = a fresh value constrained by a*x = 1 mod n"],
    assumptions=[],
    bounds=dict(quick="P-256 for codecs/range/positions; digests 20, 28, 32, 48, 64, 66 bytes on 4 curves; tiny curve p = 11 (one job per private key)", thorough="+ arbitrary DER buffers of 6 bytes; tiny curves p in {13, 17}"),
    outside=["OpenSSL interoperability", "RFC 6979 nonce derivation", "tamper rejection of in-range values on full-size curves", "EdDSA"],
)

PKG = c19.PKG


def jobs(tier, seed):
    J = []
    for fmt in ("string", "strings", "der"):
        J.append(dict(name="sig:codec:%s" % fmt, kind="codec", fmt=fmt, canon=False, timeout=900, cost=100))
        J.append(dict(name="sig:codec:%s_canonize" % fmt, kind="codec", fmt=fmt, canon=True, timeout=900, cost=100))
    nmax = 5 if tier == "quick" else 6
    for n in range(0, nmax + 1):
        J.append(dict(name="sig:decode:der:%dbytes" % n, kind="decodeder", n=n, timeout=1500, cost=4 ** n))
    J.append(dict(name="sig:decode:string:lengths", kind="declen", timeout=600, cost=20))
    for fmt, L in (("der", 72), ("string", 64)):
        for lo in range(0, L, 12):
            J.append(dict(name="sig:verify:%s:positions%d-%d" % (fmt, lo, min(L, lo + 12) - 1), kind="sigpos", fmt=fmt, lo=lo, hi=min(L, lo + 12), timeout=1800, cost=200))
        J.append(dict(name="sig:verify:%s:truncate-extend" % fmt, kind="sigcut", fmt=fmt, timeout=1800, cost=200))
    J.append(dict(name="sig:range:verifies", kind="range", timeout=900, cost=100))
    for curve in ("NIST192p", "NIST256p", "NIST384p", "NIST521p"):
        J.append(dict(name="digest:bits2int:%s" % curve, kind="digest", curve=curve, timeout=900, cost=100))
    for p in ([11] if tier == "quick" else [11, 13, 17]):
        a, b, g, n = _tiny_curve(p)
        for d in range(1, n):
            J.append(dict(name="ecdsa:tiny:p%d:sign-verify:d%d" % (p, d), kind="tiny", p=p, d=d, timeout=3000, cost=30 * p))
    J.append(dict(name="twin:range-check-refuted", kind="range", twin=True, expect="violated", timeout=300))
    return J


R0 = 0xAB9E0C2F5A5E7A0F1C4D9B8A7766554433221100FFEEDDCCBBAA998877665544
S0 = 0xFD3C1B0A99887766554433221100FFEEDDCCBBAA00112233445566778899AABB


def _valid_sig(ec, util, sk, digest, fmt):
    """a valid signature of `digest` under sk (concrete, real arithmetic) whose DER form has the maximal 72 bytes"""
    n_ = ec.NIST256p.order
    h = int.from_bytes(digest, "big")
    for k in range(3, 400):
        sig = sk.privkey.sign(h, k * 0x1000003D + 7)
        if sig.r >> 255 and sig.s >> 255:
            break
    return util.sigencode_der(sig.r, sig.s, n_) if fmt == "der" else util.sigencode_string(sig.r, sig.s, n_)


def _tiny_curve(p):
    """first prime-order short Weierstrass curve over F_p (a, b, generator, order), found concretely"""
    def isprime(k):
        return k > 1 and all(k % d for d in range(2, int(k ** 0.5) + 1))

    for a in range(1, p):
        for b in range(1, p):
            if (4 * a ** 3 + 27 * b ** 2) % p == 0:
                continue
            pts = [(x, y) for x in range(p) for y in range(p) if (y * y - (x ** 3 + a * x + b)) % p == 0]
            n = len(pts) + 1
            if isprime(n) and n >= 7 and n != p:
                return a, b, pts[0], n
    raise ValueError("no curve")


def run_job(job):
    import importlib

    import z3

    bv, symbytes, ec = c19._setup()
    BV = bv.BV
    util = importlib.import_module(PKG + ".ecdsa.util")
    ecd = importlib.import_module(PKG + ".ecdsa.ecdsa")
    keys = importlib.import_module(PKG + ".ecdsa.keys")
    nt = importlib.import_module(PKG + ".ecdsa.numbertheory")
    ell = importlib.import_module(PKG + ".ecdsa.ellipticcurve")
    der = ec.der
    kind = job["kind"]
    bv.STATS.update(queries=0, solver_s=0.0, paths=0)
    results = []
    P256 = ec.NIST256p
    n_ = P256.order

    def guarded(fn):
        try:
            return ("ok", fn())
        except (bv.Inconclusive, bv.Infeasible):
            raise
        except Exception as e:  # noqa
            return ("exc", type(e).__name__, str(e)[:200])

    def explore(fn):
        return bv.Explorer(timeout_ms=120000).explore(fn, max_paths=200000)

    def decide(name, pc, claim, inputs):
        if isinstance(claim, bool):
            claim = z3.BoolVal(claim)
        r, m = bv.check(pc, claim)
        wit = None
        if r == "sat":
            wit = {k: c19._hexify(symbytes.concretize(v, m)) for k, v in inputs.items()}
        results.append((name, r, wit))

    def eqb(a, b):
        a, b = list(a), list(b)
        if len(a) != len(b):
            return z3.BoolVal(False)
        cs = [(BV.lift(x) == BV.lift(y)).e for x, y in zip(a, b)]
        return z3.And(*cs) if cs else z3.BoolVal(True)

    def eqi(a, b):
        return (BV.lift(a) == BV.lift(b)).e

    def be32(x):
        return [symbytes.byte_of(BV.lift(x), 31 - i) for i in range(32)]

    def der_int_ref(x, pc_out):
        """X.690 INTEGER of a 256-bit proxy given the concrete number of content octets of the path"""
        return None

    cnt = [0]

    def nondet_bool():
        cnt[0] += 1
        return bool(BV.var("nd%d" % cnt[0], 0, 1) == 1)

    def sym(*xs):
        return any(isinstance(x, BV) and not x.is_const() for x in xs)

    def install_arith_stubs():
        real_inv = nt.inverse_mod

        def inv(a, m):
            if sym(a, m):
                cnt[0] += 1
                return BV.var("inv%d" % cnt[0], 0, (m.hi if isinstance(m, BV) else m) - 1)
            return real_inv(a, m)

        nt.inverse_mod = inv
        ecd.numbertheory.inverse_mod = inv
        real_muladd = ell.PointJacobi.mul_add

        class AnyPoint:
            def x(self):
                cnt[0] += 1
                return BV.var("px%d" % cnt[0], 0, P256.curve.p() - 1)

        def mul_add(self, a, other, b):
            if sym(a, b):
                return AnyPoint()
            return real_muladd(self, a, other, b)

        ell.PointJacobi.mul_add = mul_add

    if kind == "codec":
        fmt, canon = job["fmt"], job["canon"]
        enc = getattr(util, "sigencode_" + fmt + ("_canonize" if canon else ""))
        dec = getattr(util, "sigdecode_" + fmt)

        def fn_for(rlo, slo, shi=None):
            def fn():
                r = BV.var("r", rlo, n_ - 1)
                s = BV.var("s", slo, n_ - 1 if shi is None else shi)
                out = guarded(lambda: enc(r, s, n_))
                back = guarded(lambda: dec(out[1], n_)) if out[0] == "ok" else None
                return r, s, out, back

            return fn

        # the number of octets of each INTEGER is a path decision: one number ranges over all values while the other stays
        # in its top octet class (and vice versa), which keeps the DER jobs at ~150 paths instead of 64 x 64 classes
        runs = [(1, 1 << 248, None), (1 << 248, 1, None)] if fmt == "der" else [(1, 1, None)]
        if fmt == "der" and canon:
            import math

            # while r ranges over all octet counts, s stays in the top class that is not flipped (s <= float(n/2))
            runs = [(1, 1 << 254, math.floor(n_ / 2)), (1 << 248, 1, None)]
        allpaths = []
        for rlo, slo, shi in runs:
            allpaths += explore(fn_for(rlo, slo, shi))
        for pc, (r, s, out, back) in allpaths:
            inputs = dict(r=r, s=s)
            if out[0] != "ok" or back[0] != "ok":
                decide("sigencode/sigdecode_%s raised %s" % (fmt, (out if out[0] != "ok" else back)[1:]), pc, False, inputs)
                continue
            # expected s after canonisation: the smaller of s and n - s
            half = (n_ - 1) // 2
            # the decoded s is the witness for the encoded value: the output must be the reference encoding of (r, decoded s),
            # and decoded s = s, or for the canonising encoders some s' in {s, n - s} (the library tests `s > order / 2` in
            # floating point: which of the two is chosen within 2^191 of n/2 is not claimed)
            br, bs = back[1]
            s_exp = BV.lift(bs)
            o = out[1]
            if fmt == "string":
                claim = eqb(o, be32(r) + be32(s_exp))
            elif fmt == "strings":
                claim = z3.And(eqb(o[0], be32(r)), eqb(o[1], be32(s_exp))) if len(o) == 2 else z3.BoolVal(False)
            else:
                # SEQUENCE { INTEGER r, INTEGER s }: walk the concrete structure of this path
                ol = list(o)
                ok = True
                parts = []
                try:
                    assert not isinstance(ol[0], BV) and ol[0] == 0x30 and not isinstance(ol[1], BV) and ol[1] == len(ol) - 2 and ol[1] < 0x80
                    i = 2
                    for _ in range(2):
                        assert not isinstance(ol[i], BV) and ol[i] == 2 and not isinstance(ol[i + 1], BV)
                        ln = ol[i + 1]
                        parts.append(ol[i + 2: i + 2 + ln])
                        i += 2 + ln
                    assert i == len(ol)
                except (AssertionError, IndexError):
                    ok = False
                if not ok:
                    claim = z3.BoolVal(False)
                else:
                    cl = []
                    for val, num in zip(parts, (r, s_exp)):
                        cl.append(eqi(symbytes.be_value(val), num))
                        cl.append((BV.lift(val[0]) < 0x80).e)
                        if len(val) > 1:
                            cl.append(z3.Not(z3.And(eqi(val[0], 0), (BV.lift(val[1]) < 0x80).e)))
                    claim = z3.And(*cl)
            decide("sigencode_%s%s = reference encoding" % (fmt, "_canonize" if canon else ""), pc, claim, inputs)
            if canon:
                rel = z3.Or(eqi(bs, s), eqi(bs, BV.lift(n_) - s))
            else:
                rel = eqi(bs, s)
            decide("sigdecode_%s(sigencode(r, s)) = (r, s%s)" % (fmt, "'" if canon else ""), pc, z3.And(eqi(br, r), rel), inputs)
    elif kind == "decodeder":
        n = job["n"]

        def fn():
            buf = symbytes.sym_bytes("b", n) if n else b""
            return buf, guarded(lambda: util.sigdecode_der(buf, n_))

        for pc, (buf, r) in explore(fn):
            if r[0] == "exc" and r[1] != "UnexpectedDER":
                decide("sigdecode_der raised %s: %s" % r[1:], pc, False, dict(buf=buf))
    elif kind == "declen":
        for L in list(range(0, 70)) + [128, 129]:
            for f, arg in (("string", bytes(L)), ("strings", (bytes(L), bytes(32))), ("strings", (bytes(32), bytes(L)))):
                r = guarded(lambda: getattr(util, "sigdecode_" + f)(arg, n_))
                good = (L == 64) if f == "string" else (L == 32)
                ok = (r[0] == "ok") if good else (r[0] == "exc" and r[1] == "MalformedSignature")
                results.append(("sigdecode_%s length %d" % (f, L), "unsat" if ok else "sat", dict(fmt=f, L=L)))
        for cnt_ in (0, 1, 3):
            r = guarded(lambda: util.sigdecode_strings(tuple(bytes(32) for _ in range(cnt_)), n_))
            results.append(("sigdecode_strings with %d strings" % cnt_, "unsat" if r[0] == "exc" and r[1] == "MalformedSignature" else "sat", dict(fmt="strings-count", L=cnt_)))
    elif kind in ("sigpos", "sigcut", "range"):
        install_arith_stubs()
        c19._install_curve_stubs(bv, ec)
        sk = ec.SigningKey.from_secret_exponent(c19.SECEXP, P256)
        vk = sk.verifying_key
        digest = bytes(range(32))
        if kind == "range":
            twin = job.get("twin")

            def fn():
                r = BV.var("r", 0, (1 << 257) - 1)
                s = BV.var("s", 0, (1 << 257) - 1)
                h = BV.var("h", 0, (1 << 256) - 1)
                res = guarded(lambda: bool(vk.pubkey.verifies(h, ecd.Signature(r, s))))
                res2 = guarded(lambda: vk.verify_digest((symbytes.mk(be32(r)), symbytes.mk(be32(s))), digest, sigdecode=util.sigdecode_strings)) if bool(r < (1 << 256)) and bool(s < (1 << 256)) else None
                return r, s, h, res, res2

            for pc, (r, s, h, res, res2) in explore(fn):
                inputs = dict(r=r, s=s, h=h)
                in_range = z3.And((BV.lift(r) >= 1).e, (BV.lift(r) <= n_ - 1).e, (BV.lift(s) >= 1).e, (BV.lift(s) <= n_ - 1).e)
                if res[0] == "exc":
                    decide("verifies raised %s: %s" % res[1:], pc, False, inputs)
                    continue
                val = res[1]
                if val is True or twin:
                    decide("verifies() accepted r or s outside 1..n-1", pc, in_range if not twin else z3.BoolVal(False), inputs)
                if res2 is not None:
                    if res2[0] == "exc" and res2[1] != "BadSignatureError":
                        decide("verify_digest raised %s: %s" % res2[1:], pc, False, inputs)
                    elif res2[0] == "ok":
                        decide("verify_digest accepted r or s outside 1..n-1", pc, in_range, inputs)
        else:
            fmt = job["fmt"]
            sigdecode = util.sigdecode_der if fmt == "der" else util.sigdecode_string
            valid = _valid_sig(ec, util, sk, digest, fmt)

            def ver(buf):
                return vk.verify_digest(buf, digest, sigdecode=sigdecode)

            if kind == "sigpos":
                for pos in range(job["lo"], job["hi"]):
                    def fn(pos=pos):
                        v = BV.var("v", 0, 255)
                        buf = symbytes.mk(list(valid[:pos]) + [v] + list(valid[pos + 1:]))
                        return v, guarded(lambda: ver(buf))

                    if pos >= len(valid):
                        continue
                    for pc, (v, r) in explore(fn):
                        if r[0] == "exc" and r[1] != "BadSignatureError":
                            decide("%s signature position %d: %s: %s" % (fmt, pos, r[1], r[2]), pc, False, dict(fmt=fmt, pos=pos, v=v))
                        elif r[0] == "exc":
                            # the unchanged signature is valid: a rejecting path must exclude the original byte unless the
                            # (nondeterministic) verification equation was consulted with changed numbers
                            pass
                    r0 = guarded(lambda: ver(valid))
                    if r0 != ("ok", True):
                        results.append(("the unchanged valid %s signature is rejected: %r" % (fmt, r0), "sat", dict(fmt=fmt, pos=-1, v=0)))
            else:
                for cut in range(0, len(valid)):
                    r = guarded(lambda: ver(valid[:cut]))
                    bad = r[0] == "ok" or r[1] != "BadSignatureError"
                    results.append(("%s signature truncated to %d bytes: %s" % (fmt, cut, r[:2]), "sat" if bad else "unsat", dict(fmt=fmt, cut=cut)))
                if fmt == "der":
                    # one byte inserted at the end of the SEQUENCE content (length octet adjusted) and at the end of each INTEGER
                    ends = [len(valid), 4 + valid[3]]
                    for end in ends:
                        def fn(end=end):
                            v = BV.var("v", 0, 255)
                            m = bytearray(valid)
                            m[1] += 1
                            if end != len(valid):
                                m[3] += 1
                            buf = symbytes.mk(list(m[:end]) + [v] + list(m[end:]))
                            return v, guarded(lambda: ver(buf)), bytes(m)

                        for pc, (v, r, m) in explore(fn):
                            if r[0] == "ok" or r[1] != "BadSignatureError":
                                decide("der signature with a byte inserted at %d (lengths adjusted): %s" % (end, r[:2]), pc, False, dict(fmt=fmt, insert_at=end, v=v, base=m))
                for extra in (1, 2):
                    def fn(extra=extra):
                        tail = symbytes.sym_bytes("t", extra)
                        return tail, guarded(lambda: ver(symbytes.mk(list(valid) + list(tail))))

                    for pc, (tail, r) in explore(fn):
                        if r[0] == "ok" or r[1] != "BadSignatureError":
                            decide("%s signature extended by %d bytes: %s" % (fmt, extra, r[:2]), pc, False, dict(fmt=fmt, tail=tail))
    elif kind == "digest":
        curve = getattr(ec, job["curve"])
        qlen = curve.order.bit_length()
        for L in (20, 28, 32, 48, 64, 66):
            def fn(L=L):
                d = symbytes.sym_bytes("d", L)
                a = guarded(lambda: keys._truncate_and_convert_digest(d, curve, True))
                b = guarded(lambda: keys._truncate_and_convert_digest(d, curve, False))
                return d, a, b

            for pc, (d, a, b) in explore(fn):
                inputs = dict(curve=job["curve"], digest=d)
                if a[0] != "ok":
                    decide("digest of %d bytes with truncation raised %s" % (L, a[1:]), pc, False, inputs)
                else:
                    # bits2int (RFC 6979 2.3.2 / FIPS 186-4 6.4): the leftmost min(8L, qlen) bits as a number
                    full = symbytes.be_value(d)
                    want = full >> max(0, 8 * L - qlen)
                    decide("digest of %d bytes -> leftmost %d bits" % (L, min(8 * L, qlen)), pc, eqi(a[1], want), inputs)
                too_long = L > curve.baselen
                if too_long:
                    decide("over-long digest without truncation must raise BadDigestError", pc, b[0] == "exc" and b[1] == "BadDigestError", inputs)
                elif b[0] != "ok":
                    decide("digest of %d bytes raised %s" % (L, b[1:]), pc, False, inputs)
                else:
                    decide("digest of %d bytes -> its big-endian value" % L, pc, eqi(b[1], symbytes.be_value(d)), inputs)
    elif kind == "tiny":
        p = job["p"]
        a, b, g, n = _tiny_curve(p)
        curve = ell.CurveFp(p, a, b, 1)
        G = ell.PointJacobi(curve, g[0], g[1], 1, n, generator=False)
        real_inv = nt.inverse_mod

        def inv(x, m):
            if sym(x):
                if x == 0:
                    return 0
                cnt[0] += 1
                v = BV.var("inv%d" % cnt[0], 1, m - 1)
                bv.CURRENT.assume(((x * v) % m == 1).e)
                return v
            return real_inv(x, m)

        nt.inverse_mod = inv
        ecd.numbertheory.inverse_mod = inv
        ell.numbertheory.inverse_mod = inv
        real_muladd, real_mul = ell.PointJacobi.mul_add, ell.PointJacobi.__mul__
        # scalars reaching the point arithmetic are decided by path conditions (ranges below n)
        ell.PointJacobi.mul_add = lambda self, a_, other, b_: real_muladd(self, symbytes._index(a_), other, symbytes._index(b_))
        ell.PointJacobi.__mul__ = lambda self, k_: real_mul(self, symbytes._index(k_))
        ell.PointJacobi.__rmul__ = ell.PointJacobi.__mul__

        def fn():
            d = BV.const(job["d"])
            k = BV.var("k", 1, n - 1)
            h = BV.var("h", 0, 4 * n)
            # scalars are decided by path conditions (solver-driven enumeration on this small group)
            dc = symbytes._index(d)
            kc = symbytes._index(k)
            Q = G * dc
            pub = ecd.Public_key(G, Q, verify=False)
            priv = ecd.Private_key(pub, dc)
            sig = guarded(lambda: priv.sign(h, kc))
            ver = guarded(lambda: pub.verifies(h, sig[1])) if sig[0] == "ok" else None
            return dc, kc, h, sig, ver

        for pc, (d, k, h, sig, ver) in explore(fn):
            inputs = dict(p=p, curve=[a, b, list(g), n], d=d, k=k, h=h)
            if sig[0] == "exc":
                if sig[1] != "RSZeroError":
                    decide("sign raised %s: %s" % sig[1:], pc, False, inputs)
                continue
            r_, s_ = sig[1].r, sig[1].s
            decide("signature numbers in 1..n-1", pc, z3.And((BV.lift(r_) >= 1).e, (BV.lift(r_) <= n - 1).e, (BV.lift(s_) >= 1).e, (BV.lift(s_) <= n - 1).e), inputs)
            if ver[0] != "ok":
                decide("verifies raised %s: %s" % ver[1:], pc, False, inputs)
                continue
            v = ver[1]
            if isinstance(v, bv.BoolP):
                decide("own signature verifies", pc, v.e, inputs)
            else:
                decide("own signature verifies", pc, bool(v), inputs)
    else:
        raise ValueError(kind)

    bad = [r for r in results if r[1] == "sat"]
    unk = [r for r in results if r[1] not in ("sat", "unsat")]
    res = dict(queries=bv.STATS["queries"], solver_s=round(bv.STATS["solver_s"], 3), paths=bv.STATS["paths"], symbolic_dims=1, message="%d obligations, %d paths" % (len(results), bv.STATS["paths"]))
    if bad:
        res.update(verdict="violated", state="SAT", witness=dict(what=bad[0][0], inputs=bad[0][2]), signature="C18:" + kind + (":" + job.get("fmt", "") if job.get("fmt") else ""), message=bad[0][0] + " | " + res["message"])
    elif unk:
        res.update(verdict="inconclusive", state="UNKNOWN", message=str(unk[:3]))
    else:
        res.update(verdict="held", state="UNSAT")
    return res


def replay(job):
    from vlib import common

    common.setup_paths()
    import importlib

    ec = importlib.import_module(PKG + ".ecdsa")
    util = importlib.import_module(PKG + ".ecdsa.util")
    ecd = importlib.import_module(PKG + ".ecdsa.ecdsa")
    keys = importlib.import_module(PKG + ".ecdsa.keys")
    ell = importlib.import_module(PKG + ".ecdsa.ellipticcurve")
    if job.get("twin"):
        return dict(reproduced=True, signature="twin")
    w = c19._unhex(job.get("witness") or {})
    what, inp = w.get("what", ""), w.get("inputs") or {}
    kind = job["kind"]
    sig = "C18:" + kind + (":" + job.get("fmt", "") if job.get("fmt") else "")
    P256 = ec.NIST256p
    n_ = P256.order

    def run(fn):
        try:
            return ("ok", fn())
        except Exception as e:  # noqa
            return ("exc", type(e).__name__, str(e)[:200])

    def der_int(x):
        b = x.to_bytes((x.bit_length() + 8) // 8 or 1, "big")
        return b"\x02" + c19.ref_len_octets(len(b)) + b

    if kind == "codec":
        fmt, canon = job["fmt"], job["canon"]
        enc = getattr(util, "sigencode_" + fmt + ("_canonize" if canon else ""))
        dec = getattr(util, "sigdecode_" + fmt)
        cands = [(inp.get("r", 1), inp.get("s", 1))] + [(r, s) for r in (1, 255, 1 << 247, (1 << 255) + 5, n_ - 1) for s in (1, 127, 128, (n_ - 1) // 2, (n_ + 1) // 2, 1 << 255, n_ - 1)]
        for r, s in cands:
            se = s
            if canon:
                g0 = run(lambda: dec(enc(r, s, n_), n_))
                se = g0[1][1] if g0[0] == "ok" and g0[1][1] in (s, n_ - s) else n_ - s
            want = {"string": r.to_bytes(32, "big") + se.to_bytes(32, "big"), "strings": (r.to_bytes(32, "big"), se.to_bytes(32, "big")), "der": b"\x30" + c19.ref_len_octets(len(der_int(r) + der_int(se))) + der_int(r) + der_int(se)}[fmt]
            g = run(lambda: enc(r, s, n_))
            b_ = run(lambda: dec(want, n_))
            if g != ("ok", want) or b_ != ("ok", (r, se)):
                return dict(reproduced=True, signature=sig, detail="r=%d s=%d: %s -> %r (reference %r), decoding the reference -> %r" % (r, s, enc.__name__, g, want, b_))
        return dict(reproduced=False, detail="no candidate reproduced")
    if kind == "decodeder":
        buf = inp.get("buf", b"")
        r = run(lambda: util.sigdecode_der(buf, n_))
        return dict(reproduced=r[0] == "exc" and r[1] != "UnexpectedDER", signature=sig, detail="sigdecode_der(%s) -> %r" % (buf.hex(), r))
    if kind == "declen":
        f, L = inp.get("fmt"), inp.get("L", 0)
        if f == "strings-count":
            r = run(lambda: util.sigdecode_strings(tuple(bytes(32) for _ in range(L)), n_))
            return dict(reproduced=not (r[0] == "exc" and r[1] == "MalformedSignature"), signature=sig, detail="%d strings -> %r" % (L, r))
        outs = []
        for arg in ([bytes(L)] if f == "string" else [(bytes(L), bytes(32)), (bytes(32), bytes(L))]):
            r = run(lambda: getattr(util, "sigdecode_" + f)(arg, n_))
            good = (L == 64) if f == "string" else (L == 32)
            if (r[0] == "ok") != good or (r[0] == "exc" and r[1] != "MalformedSignature"):
                outs.append(r)
        return dict(reproduced=bool(outs), signature=sig, detail="sigdecode_%s with length %d -> %r" % (f, L, outs))
    if kind in ("sigpos", "sigcut", "range"):
        sk = ec.SigningKey.from_secret_exponent(c19.SECEXP, P256)
        vk = sk.verifying_key
        digest = bytes(range(32))
        if kind == "range":
            cands = [(inp.get("r", 0), inp.get("s", 0))] + [(r, s) for r in (0, 1, n_ - 1, n_, n_ + 1, 1 << 256) for s in (0, 1, n_ - 1, n_, n_ + 1, 1 << 256)]
            for r, s in cands:
                inr = 1 <= r < n_ and 1 <= s < n_
                g = run(lambda: vk.pubkey.verifies(int.from_bytes(digest, "big"), ecd.Signature(r, s)))
                if g[0] == "exc" or (g[1] and not inr):
                    return dict(reproduced=True, signature=sig, detail="verifies(r=%d, s=%d) -> %r" % (r, s, g))
                if r < (1 << 256) and s < (1 << 256):
                    g2 = run(lambda: vk.verify_digest((r.to_bytes(32, "big"), s.to_bytes(32, "big")), digest, sigdecode=util.sigdecode_strings))
                    if (g2[0] == "ok" and not inr) or (g2[0] == "exc" and g2[1] != "BadSignatureError"):
                        return dict(reproduced=True, signature=sig, detail="verify_digest(r=%d, s=%d) -> %r" % (r, s, g2))
            return dict(reproduced=False)
        fmt = job["fmt"]
        sigdecode = util.sigdecode_der if fmt == "der" else util.sigdecode_string
        valid = _valid_sig(ec, util, sk, digest, fmt)
        if inp.get("pos") == -1:
            r = run(lambda: vk.verify_digest(valid, digest, sigdecode=sigdecode))
            return dict(reproduced=r != ("ok", True), signature=sig, detail="valid signature %s -> %r" % (valid.hex(), r))
        if "insert_at" in inp:
            b_ = inp["base"]
            m = b_[: inp["insert_at"]] + bytes([inp["v"]]) + b_[inp["insert_at"]:]
        elif "pos" in inp:
            m = valid[: inp["pos"]] + bytes([inp["v"]]) + valid[inp["pos"] + 1:]
        elif "cut" in inp:
            m = valid[: inp["cut"]]
        else:
            m = valid + inp.get("tail", b"\x00")
        r = run(lambda: vk.verify_digest(m, digest, sigdecode=sigdecode))
        bad = (r[0] == "exc" and r[1] != "BadSignatureError") or (r[0] == "ok" and "pos" not in inp)
        return dict(reproduced=bad, signature=sig, detail="verify_digest(%s) -> %r" % (m.hex(), r))
    if kind == "digest":
        curve = getattr(ec, job["curve"])
        qlen = curve.order.bit_length()
        d = inp.get("digest", bytes(32))
        ds = [d] + [bytes([0xFF]) * L for L in (20, 28, 32, 48, 64, 66)] + [bytes([0x80] + [0] * (L - 2) + [1]) for L in (20, 28, 32, 48, 64, 66)]
        for d in ds:
            L = len(d)
            want = int.from_bytes(d[: curve.baselen], "big")
            want >>= max(0, 8 * min(L, curve.baselen) - qlen)
            a = run(lambda: keys._truncate_and_convert_digest(d, curve, True))
            b = run(lambda: keys._truncate_and_convert_digest(d, curve, False))
            okb = (b[0] == "exc" and b[1] == "BadDigestError") if L > curve.baselen else b == ("ok", int.from_bytes(d, "big"))
            if a != ("ok", want) or not okb:
                return dict(reproduced=True, signature=sig, detail="%s, digest %s: truncated -> %r (bits2int %d), untruncated -> %r" % (job["curve"], d.hex(), a, want, b))
        return dict(reproduced=False)
    if kind == "tiny":
        p = job["p"]
        a, b, g, n = _tiny_curve(p)
        curve = ell.CurveFp(p, a, b, 1)
        G = ell.PointJacobi(curve, g[0], g[1], 1, n, generator=False)
        todo = [(inp.get("d", job.get("d", 1)), inp.get("k", 1), inp.get("h", 0))] + [(d, k, h) for d in [job.get("d", 1)] for k in range(1, n) for h in range(0, 4 * n + 1)]
        for d, k, h in todo:
            pub = ecd.Public_key(G, G * d, verify=False)
            priv = ecd.Private_key(pub, d)
            s_ = run(lambda: priv.sign(h, k))
            if s_[0] == "exc":
                if s_[1] != "RSZeroError":
                    return dict(reproduced=True, signature=sig, detail="F_%d curve (a=%d, b=%d, G=%s, n=%d): sign(d=%d, k=%d, h=%d) -> %r" % (p, a, b, g, n, d, k, h, s_))
                continue
            v = run(lambda: pub.verifies(h, s_[1]))
            if v != ("ok", True) or not (1 <= s_[1].r < n and 1 <= s_[1].s < n):
                return dict(reproduced=True, signature=sig, detail="F_%d curve (a=%d, b=%d, G=%s, n=%d): d=%d k=%d h=%d -> (r=%d, s=%d), verifies -> %r" % (p, a, b, g, n, d, k, h, s_[1].r, s_[1].s, v))
        return dict(reproduced=False)
    return dict(reproduced=False, detail="no replay for " + kind)
