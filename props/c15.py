"""C15 - the authentication-block checksum is CRC-16/MCRF4XX for all inputs."""
import inspect

PROPERTY = "C15"
FILES = ["bec2format/bec2file.py"]
META = dict(
    level="other",
    engines="B",
    files=FILES,
    technique="the real crc8404B is executed on exact-width bit-vector proxies (Engine B) and its output term is compared by z3 with a bit-serial CRC-16 (reflected polynomial 0x8408) reference: one-step lemma over all 2^16 x 2^8 cases, compositionality of the loop, and unrolled end-to-end equivalence",
    level_text="Solver verdict over all 16-bit start values and all byte values for one update step (2^24 cases in one query), for the composition law crc(a||b, s) = crc(b, crc(a, s)) on symbolic strings, and end to end for every string of length 0..8, 15..17, 31..33, 64 (quick) / 0..40, 63..65 (thorough) with symbolic start value; result always within 16 bits; default start 0xFFFF; no final XOR.",
    level_note="Trusted: z3 bit-vector theory, the 60-line proxy class (each operator evaluated at a width that cannot overflow; validated at start-up against Python ints on random values), the 8-line bit-serial reference. Strings longer than the unrolling are covered by the step lemma + composition law as an induction argument, not by a separate query.",
    explanation="Bounded symbolic verification: bec2file.crc8404B is called with proxy arguments (bec2file.int shadowed by identity in the checking process); the proxies build the exact z3 bit-vector term of the result; queries are discharged by z3. A deliberately wrong reference (0x8409) must be refuted (sat).",
    functions=["bec2format.bec2file.crc8404B"],
    stubs=["bec2file.int/bytes/bytearray -> identity on proxies, int.from_bytes -> exact bit-vector concatenation", "module-level integer tables of bec2file -> z3 arrays with the same contents (table-driven rewrites stay symbolic)"],
    assumptions=[],
    bounds=dict(quick="step lemma all (start, byte); composition for |a|,|b| <= 2; strings of length 0..8, 15..17, 31..33, 64", thorough="strings of length 0..40, 63..65 (128: solver unknown after 600 s, outside the claim); composition for |a|,|b| <= 4"),
    outside=["strings longer than the unrolling except through the induction argument", "start values outside 0..0xFFFF"],
)


def jobs(tier, seed):
    J = [dict(name="step-lemma", kind="step", timeout=300), dict(name="range-16bit", kind="range", timeout=300), dict(name="default-start-and-no-final-xor", kind="default", timeout=300), dict(name="fact:one-byte-nonzero", kind="fact1", timeout=300), dict(name="twin:poly-8409-refuted", kind="step", wrongpoly=0x8409, expect="violated", timeout=300), dict(name="proxy-selftest", kind="selftest", timeout=300)]
    J.append(dict(name="history:same-buffer-mutated-between-calls", kind="history", timeout=300))
    maxlen = 8 if tier == "quick" else 40
    # block-size boundaries (16/32/64-byte folds of an optimised routine) are part of the quick tier as well
    for n in list(range(0, maxlen + 1)) + ([15, 16, 17, 31, 32, 33, 64] if tier == "quick" else [63, 64, 65]):
        J.append(dict(name="unrolled:len%d" % n, kind="unrolled", n=n, timeout=900 if n <= 64 else 3600, cost=n + 1))
    m = 2 if tier == "quick" else 4
    for a in range(0, m + 1):
        for b in range(0, m + 1):
            J.append(dict(name="compose:%d+%d" % (a, b), kind="compose", a=a, b=b, timeout=600, cost=a + b + 1))
    return J


def ref_crc_z3(z3, data_terms, start16, poly=0x8408):
    """bit-serial reference over 16-bit vectors"""
    crc = start16
    for b in data_terms:
        crc = crc ^ z3.ZeroExt(8, b)
        for _ in range(8):
            crc = z3.If(z3.Extract(0, 0, crc) == 1, z3.LShR(crc, 1) ^ z3.BitVecVal(poly, 16), z3.LShR(crc, 1))
    return crc


def py_ref(data, start=0xFFFF, poly=0x8408):
    crc = start
    for b in data:
        crc ^= b
        for _ in range(8):
            crc = (crc >> 1) ^ poly if crc & 1 else crc >> 1
    return crc


def run_job(job):
    import random
    import z3
    from vlib import common

    common.setup_paths()
    from vlib.engineb import bv
    from bec2format import bec2file as b2

    BV = bv.BV
    kind = job["kind"]
    bv.STATS.update(queries=0, solver_s=0.0, paths=0)

    if kind == "selftest":
        # proxy arithmetic vs Python ints on random values (translator validation)
        rnd = random.Random(1)
        ops = [lambda a, b: a + b, lambda a, b: a - b, lambda a, b: a * b, lambda a, b: a ^ b, lambda a, b: a & b, lambda a, b: a | b, lambda a, b: (a << 3) ^ (b >> 2), lambda a, b: (a - b) % 97, lambda a, b: (a * b - 7) // 5, lambda a, b: -a + (b & 0xFF)]
        bad = 0
        for _ in range(300):
            x, y = rnd.randrange(-70000, 70000), rnd.randrange(-300, 70000)
            for f in ops:
                ex = bv.Explorer()
                bv.CURRENT = ex
                r = f(BV.const(x), BV.const(y))
                got = z3.simplify(r.t).as_signed_long()
                if got != f(x, y) or not (r.lo <= got <= r.hi):
                    bad += 1
        return dict(verdict="held" if bad == 0 else "inconclusive", state="SELFTEST %d mismatches" % bad, queries=1, solver_s=0.0, symbolic_dims=0, message="3000 proxy operations compared with Python ints")

    # shadows of builtins inside bec2file (checking process only): int()/bytes()/bytearray() are the identity on
    # proxies, int.from_bytes builds the exact bit-vector term, and module-level integer tables become z3 arrays so
    # that table-driven rewrites of the routine are executed symbolically as well
    class IntShim:
        def __call__(self, x=0, *a):
            return x if isinstance(x, BV) else int(x, *a)

        @staticmethod
        def from_bytes(data, byteorder="big", signed=False):
            data = list(data)
            if signed:
                raise NotImplementedError("signed from_bytes on proxies")
            if byteorder == "big":
                data = data[::-1]
            acc = BV.const(0)
            for i, d in enumerate(data):
                acc = acc | (BV.lift(d) << (8 * i))
            return acc

    class SeqShim:
        def __init__(self, real):
            self.real = real

        def __call__(self, x=b"", *a):
            if not isinstance(x, (bytes, bytearray, int, str)) and any(isinstance(e, BV) for e in x):
                return list(x)
            return self.real(x, *a)

    class Table(tuple):
        def __getitem__(self, idx):
            if isinstance(idx, BV) and not idx.is_const():
                if not (idx.lo >= 0 and idx.hi < len(self)) and not (BV.const(0) <= idx and idx < len(self)):
                    raise IndexError("table index out of range")
                if self._affine:
                    # GF(2)-affine table (every CRC table is): T[x] = T[0] ^ XOR_i bit_i(x) * (T[1<<i] ^ T[0]);
                    # affinity was established over all index pairs when the table was wrapped
                    k = (len(self) - 1).bit_length()
                    x = idx.ext(k + 1)
                    t = z3.BitVecVal(tuple.__getitem__(self, 0), self._w)
                    for i in range(k):
                        c = tuple.__getitem__(self, 1 << i) ^ tuple.__getitem__(self, 0)
                        t = t ^ z3.If(z3.Extract(i, i, x) == 1, z3.BitVecVal(c, self._w), z3.BitVecVal(0, self._w))
                    return BV(z3.ZeroExt(1, t), min(self), max(self))
                w = max(idx.width(), 2) if not (idx.lo >= 0 and idx.hi < 256) else 8
                arr = self._arrs.get(w)
                if arr is None:
                    arr = z3.K(z3.BitVecSort(w), z3.BitVecVal(0, self._w))
                    for i, v in enumerate(self):
                        arr = z3.Store(arr, z3.BitVecVal(i, w), z3.BitVecVal(v, self._w))
                    self._arrs[w] = arr
                return BV(z3.ZeroExt(1, z3.Select(arr, idx.ext(w))), min(self), max(self))
            if isinstance(idx, BV):
                idx = idx.lo
            return tuple.__getitem__(self, idx)

    b2.int = IntShim()
    b2.bytes = SeqShim(bytes)
    b2.bytearray = SeqShim(bytearray)
    for nm, val in list(vars(b2).items()):
        if isinstance(val, (tuple, list)) and len(val) >= 16 and all(type(v) is int and v >= 0 for v in val):
            t = Table(val)
            t._w = max(max(val).bit_length(), 1)
            t._arrs = {}
            n_ = len(val)
            t._affine = n_ & (n_ - 1) == 0 and all(val[a ^ b_] == val[a] ^ val[b_] ^ val[0] for a in range(n_) for b_ in range(a))
            setattr(b2, nm, t)

    def real(data, start=None):
        return b2.crc8404B(data) if start is None else b2.crc8404B(data, start)

    def run(fn):
        ex = bv.Explorer()
        paths = ex.explore(fn)
        return paths

    results = []

    def eq_ref(out, ref):
        """out (proxy of any width) equals the 16-bit reference term, compared at a width that truncates neither"""
        out = BV.lift(out)
        W = max(out.width() + 1, 18)
        return out.ext(W) == z3.ZeroExt(W - 16, ref)

    def in16(out):
        out = BV.lift(out)
        W = max(out.width() + 1, 18)
        return z3.And(out.ext(W) >= 0, out.ext(W) < 65536)

    def same(a, b):
        a, b = BV.lift(a), BV.lift(b)
        W = max(a.width(), b.width()) + 1
        return a.ext(W) == b.ext(W)

    def decide(name, pc, claim, vars_):
        r, m = bv.check(pc, claim)
        wit = None
        if m is not None:
            wit = {k: bv.model_int(m, v) for k, v in vars_.items()}
        results.append((name, r, wit))

    if kind in ("step", "range", "fact1"):
        def fn():
            s = BV.var("start", 0, 0xFFFF)
            b = BV.var("byte", 0, 255)
            return s, b, real([b], s)

        for pc, (s, b, out) in run(fn):
            ref = ref_crc_z3(z3, [z3.Extract(7, 0, b.ext(9))], z3.Extract(15, 0, s.ext(17)), job.get("wrongpoly", 0x8408))
            if kind == "step":
                decide("step", pc, eq_ref(out, ref), dict(start=s, byte=b))
            elif kind == "range":
                decide("range", pc, in16(out), dict(start=s, byte=b))
                # the interval computed by the proxy must not be narrower than reality (sanity)
            else:
                decide("one-byte-nonzero", pc + [s.ext(17) == 0xFFFF], z3.Not(same(out, 0)), dict(start=s, byte=b))
    elif kind == "default":
        sig = inspect.signature(b2.crc8404B)
        dflt = sig.parameters["start_value"].default

        def fn():
            d = [BV.var("d%d" % i, 0, 255) for i in range(2)]
            return d, real(d)

        for pc, (d, out) in run(fn):
            ref = ref_crc_z3(z3, [z3.Extract(7, 0, x.ext(9)) for x in d], z3.BitVecVal(0xFFFF, 16))
            decide("default-start", pc, eq_ref(out, ref), {"d0": d[0], "d1": d[1]})
        results.append(("default-literal", "unsat" if dflt == 0xFFFF else "sat", {"default": dflt}))
        # empty input returns the start value unchanged (no final XOR)
        def fn2():
            s = BV.var("start", 0, 0xFFFF)
            return s, real([], s)

        for pc, (s, out) in run(fn2):
            out = BV.lift(out)
            decide("empty-returns-start", pc, same(out, s), dict(start=s))
    elif kind == "unrolled":
        n = job["n"]

        def fn():
            s = BV.var("start", 0, 0xFFFF)
            d = [BV.var("d%d" % i, 0, 255) for i in range(n)]
            return s, d, BV.lift(real(d, s))

        for pc, (s, d, out) in run(fn):
            ref = ref_crc_z3(z3, [z3.Extract(7, 0, x.ext(9)) for x in d], z3.Extract(15, 0, s.ext(17)))
            vars_ = dict(start=s)
            vars_.update({"d%d" % i: x for i, x in enumerate(d)})
            decide("unrolled%d" % n, pc, z3.And(eq_ref(out, ref), in16(out)), vars_)
    elif kind == "history":
        # the result depends on the current content of the buffer only: same (mutable) list object,
        # same start value, changed in place between two calls, other calls in between
        def fn():
            s_ = BV.var("start", 0, 0xFFFF)
            buf = [BV.var("d%d" % i, 0, 255) for i in range(3)]
            r1 = BV.lift(real(buf, s_))
            new0 = BV.var("n0", 0, 255)
            buf[0] = new0
            r2 = BV.lift(real(buf, s_))
            buf.append(BV.var("n3", 0, 255))
            r3 = BV.lift(real(buf, s_))
            return s_, buf, r2, r3

        for pc, (s_, buf, r2, r3) in run(fn):
            st = z3.Extract(15, 0, s_.ext(17))
            ref2 = ref_crc_z3(z3, [z3.Extract(7, 0, x.ext(9)) for x in buf[:3]], st)
            ref3 = ref_crc_z3(z3, [z3.Extract(7, 0, x.ext(9)) for x in buf], st)
            decide("history", pc, z3.And(eq_ref(r2, ref2), eq_ref(r3, ref3)), dict(start=s_))
    elif kind == "compose":
        a, b = job["a"], job["b"]

        def fn():
            s = BV.var("start", 0, 0xFFFF)
            da = [BV.var("a%d" % i, 0, 255) for i in range(a)]
            db = [BV.var("b%d" % i, 0, 255) for i in range(b)]
            whole = BV.lift(real(da + db, s))
            parts = BV.lift(real(db, real(da, s)))
            return s, da, db, whole, parts

        for pc, (s, da, db, whole, parts) in run(fn):
            vars_ = dict(start=s)
            vars_.update({"a%d" % i: x for i, x in enumerate(da)})
            vars_.update({"b%d" % i: x for i, x in enumerate(db)})
            decide("compose", pc, same(whole, parts), vars_)
    else:
        raise ValueError(kind)

    bad = [r for r in results if r[1] == "sat"]
    unk = [r for r in results if r[1] not in ("sat", "unsat")]
    res = dict(queries=bv.STATS["queries"], solver_s=round(bv.STATS["solver_s"], 3), paths=bv.STATS["paths"], symbolic_dims=1, message=str([(n, r) for n, r, _ in results]))
    if unk:
        res.update(verdict="inconclusive", state="UNKNOWN")
    elif bad:
        res.update(verdict="violated", state="SAT", witness=bad[0][2], signature="C15:" + bad[0][0])
    else:
        res.update(verdict="held", state="UNSAT")
    return res


def replay(job):
    from vlib import common

    common.setup_paths()
    from bec2format import bec2file as b2

    if job.get("wrongpoly"):
        return dict(reproduced=True, signature="twin")
    w = job.get("witness") or {}
    kind = job["kind"]
    start = w.get("start", 0xFFFF)
    if kind == "history":
        buf = bytearray(b"\x01\x02\x03")
        r1 = b2.crc8404B(buf, start)
        buf[0] = 0x77
        r2 = b2.crc8404B(buf, start)
        return dict(reproduced=r2 != py_ref(bytes(buf), start), signature="C15:history", detail="crc8404B of a bytearray changed in place between two calls: second call gives %#x, reference %#x" % (r2, py_ref(bytes(buf), start)))
    if kind == "compose":
        da = [w["a%d" % i] for i in range(job["a"])]
        db = [w["b%d" % i] for i in range(job["b"])]
        x, y = b2.crc8404B(da + db, start), b2.crc8404B(db, b2.crc8404B(da, start))
        return dict(reproduced=x != y, signature="C15:compose", detail="%s vs %s" % (x, y))
    if kind in ("step", "range", "fact1"):
        data = [w.get("byte", 0)]
    elif kind == "default":
        if "default" in w:
            return dict(reproduced=w["default"] != 0xFFFF, signature="C15:default-literal", detail="default start %r" % (w["default"],))
        data = [w.get("d0", 0), w.get("d1", 0)]
        got, want = b2.crc8404B(data), py_ref(data)
        return dict(reproduced=got != want, signature="C15:default-start", detail="crc8404B(%s)=%04x reference %04x" % (data, got, want))
    else:
        data = [w.get("d%d" % i, 0) for i in range(job.get("n", 0))]
    got = b2.crc8404B(bytes(data), start)
    want = py_ref(data, start)
    bad = got != want or not (0 <= got < 65536)
    if kind == "fact1":
        bad = b2.crc8404B(bytes(data)) == 0
    return dict(reproduced=bad, signature="C15:" + kind, detail="crc8404B(%s, %#x) = %#x, bit-serial reference = %#x" % (data, start, got, want))
