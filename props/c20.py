"""C20 - shared curve objects and the reader-writer lock are safe under every schedule (bounded model checking)."""
import ast
import os

PROPERTY = "C20"
FILES = ["appnotes/register_crypto_plugin/ecdsa/_rwlock.py", "appnotes/register_crypto_plugin/ecdsa/ellipticcurve.py"]
META = dict(
    level="model_checking",
    engines="C",
    files=FILES,
    technique="bounded model checking in z3 of a guarded-command transition system generated from the AST of _rwlock.py (every acquire / release / counter read / counter write / if is one step; state = bit-vector program counters and counters, Boolean locks) with the schedule as solver variables; horizon = total program length, complete for these loop-free programs; the lazy-table / scale() publication discipline as a line-level model generated from the AST with a small heap",
    level_text="Solver verdict over every schedule of up to three threads (1R+1W, 2R, 2W, 1R+2W, 2R+1W; thorough adds 3R, 3W) each doing acquire -> critical section -> release once: no state has a writer in its critical section together with any other holder, no reachable state is a deadlock, no release of a free lock, and (sat witness) two readers do hold together. For _maybe_precompute / scale: under every interleaving of two constructors and an observer the observer sees the table empty or complete and the coordinates either old or fully scaled.",
    level_note="2R+2W (the property's upper bound) is outside the claim: its first query did not finish in 40 minutes in the design probe; the check covers up to three threads. Granularity: one step per source-level lock operation and `if`; the counter += is split into read and write for two-thread configurations (so a lost update would be seen) and is one step for three-thread configurations (the split did not finish in 18 min); not CPython bytecode. The table/scale part is a model of the publication discipline (which statements touch shared attributes, aliasing of the list object), the arithmetic is C17. Counterexample schedules are replayed on the real class with threading.Lock replaced by a gate that follows the schedule.",
    explanation="Bounded model checking (z3, bit-vector state) of a transition system generated from the source on every run; unsupported syntax makes the check inconclusive.",
    functions=["RWLock.reader_acquire", "RWLock.reader_release", "RWLock.writer_acquire", "RWLock.writer_release", "_LightSwitch.acquire", "_LightSwitch.release", "PointJacobi._maybe_precompute (publication model)", "PointJacobi.scale (publication model)"],
    stubs=["threading.Lock -> Boolean 'held' with blocking acquire"],
    assumptions=["lock operations and single attribute reads/writes are atomic (GIL); line granularity"],
    bounds=dict(quick="1R+1W, 2R, 2W: mutual exclusion, deadlock, bad release, counter range with the counter += split into read and write; 1R+2W, 2R+1W: mutual exclusion and counter range with += as one step (deadlock / bad release of the three-thread configurations take 6-20 min each and run in the thorough tier); horizon = sum of program lengths", thorough="adds 3R, 3W, 3R-witness"),
    outside=["2R+2W and larger", "bytecode-level atomicity", "GC / __setstate__"],
)


class Unsupported(Exception):
    pass


def _src(name):
    from vlib import common

    return open(os.path.join(common.REPO, "appnotes/register_crypto_plugin/ecdsa", name)).read()


def translate_rwlock():
    """AST of _rwlock.py -> programs {reader: [instr...], writer: [...]}.
    instr: ('acq', lock) ('rel', lock) ('rd', ctr, +1/-1) ('wr', ctr) ('cacq', ctr, k, lock) ('crel', ctr, k, lock) ('enter',) ('exit',)"""
    tree = ast.parse(_src("_rwlock.py"))
    classes = {n.name: n for n in tree.body if isinstance(n, ast.ClassDef)}
    if "RWLock" not in classes or "_LightSwitch" not in classes:
        raise Unsupported("classes")
    rw = {f.name: f for f in classes["RWLock"].body if isinstance(f, ast.FunctionDef)}
    ls = {f.name: f for f in classes["_LightSwitch"].body if isinstance(f, ast.FunctionDef)}
    # attribute kinds from __init__
    kinds = {}
    for st in rw["__init__"].body:
        if isinstance(st, ast.Assign):
            t, v = ast.unparse(st.targets[0]), ast.unparse(st.value)
            kinds[t.replace("self.", "")] = "switch" if v == "_LightSwitch()" else "lock" if v == "threading.Lock()" else None
    for st in ls["__init__"].body:
        if isinstance(st, ast.Assign):
            t, v = ast.unparse(st.targets[0]), ast.unparse(st.value)
            if not (v in ("0", "threading.Lock()")):
                raise Unsupported("_LightSwitch.__init__: " + v)

    def switch_body(fn, switch, lockname):
        out = []
        for st in fn.body:
            if isinstance(st, ast.Expr) and isinstance(st.value, ast.Constant):
                continue
            u = ast.unparse(st)
            if u == "self.__mutex.acquire()":
                out.append(("acq", switch + ".mutex"))
            elif u == "self.__mutex.release()":
                out.append(("rel", switch + ".mutex"))
            elif u in ("self.__counter += 1", "self.__counter -= 1"):
                d = 1 if "+=" in u else -1
                out.append(("rd", switch + ".counter", d))
                out.append(("wr", switch + ".counter"))
            elif isinstance(st, ast.If):
                t = st.test
                if not (isinstance(t, ast.Compare) and ast.unparse(t.left) == "self.__counter" and isinstance(t.ops[0], ast.Eq) and isinstance(t.comparators[0], ast.Constant) and len(st.body) == 1 and not st.orelse):
                    raise Unsupported("if in _LightSwitch: " + u)
                b = ast.unparse(st.body[0])
                if b == "lock.acquire()":
                    out.append(("cacq", switch + ".counter", t.comparators[0].value, lockname))
                elif b == "lock.release()":
                    out.append(("crel", switch + ".counter", t.comparators[0].value, lockname))
                else:
                    raise Unsupported("if body: " + b)
            else:
                raise Unsupported("_LightSwitch statement: " + u)
        return out

    def method(fn):
        out = []
        for st in fn.body:
            if isinstance(st, ast.Expr) and isinstance(st.value, ast.Constant):
                continue
            if not (isinstance(st, ast.Expr) and isinstance(st.value, ast.Call) and isinstance(st.value.func, ast.Attribute)):
                raise Unsupported("RWLock statement: " + ast.unparse(st))
            call = st.value
            obj = ast.unparse(call.func.value).replace("self.", "")
            op = call.func.attr
            if kinds.get(obj) == "lock" and not call.args:
                out.append(("acq" if op == "acquire" else "rel", obj))
            elif kinds.get(obj) == "switch" and len(call.args) == 1:
                arg = ast.unparse(call.args[0]).replace("self.", "")
                if kinds.get(arg) != "lock":
                    raise Unsupported("switch arg " + arg)
                out += switch_body(ls[op], obj, arg)
            else:
                raise Unsupported("call " + ast.unparse(st))
        return out

    progs = {
        "reader": method(rw["reader_acquire"]) + [("enter",), ("exit",)] + method(rw["reader_release"]),
        "writer": method(rw["writer_acquire"]) + [("enter",), ("exit",)] + method(rw["writer_release"]),
    }
    return progs


def merge_updates(prog):
    """counter read+write as one step (used for 3-thread configurations, see level_note)"""
    out, i = [], 0
    while i < len(prog):
        if prog[i][0] == "rd" and i + 1 < len(prog) and prog[i + 1][0] == "wr":
            out.append(("upd", prog[i][1], prog[i][2]))
            i += 2
        else:
            out.append(prog[i])
            i += 1
    return out


def bmc(progs, threads, query, timeout_s=1500):
    if len(threads) >= 3:
        progs = {k: merge_updates(v) for k, v in progs.items()}
    """threads: list of 'reader'/'writer'.  query: 'mutex' | 'deadlock' | 'badrelease' | 'two-readers'.
    returns (result, schedule or None, stats)"""
    import time
    import z3

    P = [progs[t] for t in threads]
    n = len(P)
    H = sum(len(p) for p in P)
    locks = sorted({i[1] for p in P for i in p if i[0] in ("acq", "rel")} | {i[3] for p in P for i in p if i[0] in ("cacq", "crel")})
    ctrs = sorted({i[1] for p in P for i in p if i[0] in ("rd", "wr", "upd", "cacq", "crel")})
    CW, PW, TW = 3, 6, max(1, (n - 1).bit_length())

    def mkstate(k):
        return dict(
            pc=[z3.BitVec("pc%d_%d" % (i, k), PW) for i in range(n)],
            tmp=[z3.BitVec("tmp%d_%d" % (i, k), CW) for i in range(n)],
            crit=[z3.Bool("crit%d_%d" % (i, k)) for i in range(n)],
            lock={l: z3.Bool("L_%s_%d" % (l, k)) for l in locks},
            ctr={c: z3.BitVec("C_%s_%d" % (c, k), CW) for c in ctrs},
        )

    S = [mkstate(k) for k in range(H + 1)]
    sched = [z3.BitVec("s_%d" % k, TW + 1) for k in range(H)]
    stut = [z3.Bool("stutter_%d" % k) for k in range(H)]
    s = z3.Then("simplify", "propagate-values", "solve-eqs", "bit-blast", "sat").solver()
    s.set("timeout", timeout_s * 1000)
    s0 = S[0]
    for i in range(n):
        s.add(s0["pc"][i] == 0, s0["tmp"][i] == 0, z3.Not(s0["crit"][i]))
    for l in locks:
        s.add(z3.Not(s0["lock"][l]))
    for c in ctrs:
        s.add(s0["ctr"][c] == 0)

    def enabled(st, i, j, ins):
        """thread i at pc j may take its step"""
        if ins[0] == "acq":
            return z3.Not(st["lock"][ins[1]])
        if ins[0] == "cacq":
            return z3.Or(st["ctr"][ins[1]] != ins[2], z3.Not(st["lock"][ins[3]]))
        return z3.BoolVal(True)

    def any_enabled(st):
        alts = []
        for i in range(n):
            for j, ins in enumerate(P[i]):
                alts.append(z3.And(st["pc"][i] == j, enabled(st, i, j, ins)))
        return z3.Or(alts)

    badrel_flags = []
    for k in range(H):
        a, b = S[k], S[k + 1]
        # functional encoding: the scheduled thread executes the instruction its pc points at
        at = [[z3.And(sched[k] == i, a["pc"][i] == j) for j in range(len(P[i]))] for i in range(n)]
        en = []
        for i in range(n):
            for j, ins in enumerate(P[i]):
                en.append(z3.And(at[i][j], enabled(a, i, j, ins)))
        act = z3.Not(stut[k])
        s.add(z3.Implies(act, z3.Or(en)))
        if k > 0:
            s.add(z3.Implies(stut[k - 1], stut[k]))  # stuttering only at the end of the run
        for i in range(n):
            npc, ntmp, ncrit = a["pc"][i], a["tmp"][i], a["crit"][i]
            for j, ins in enumerate(P[i]):
                c = z3.And(act, at[i][j])
                npc = z3.If(c, z3.BitVecVal(j + 1, PW), npc)
                if ins[0] == "rd":
                    ntmp = z3.If(c, a["ctr"][ins[1]] + ins[2], ntmp)
                elif ins[0] == "enter":
                    ncrit = z3.If(c, z3.BoolVal(True), ncrit)
                elif ins[0] == "exit":
                    ncrit = z3.If(c, z3.BoolVal(False), ncrit)
            s.add(b["pc"][i] == npc, b["tmp"][i] == ntmp, b["crit"][i] == ncrit)
        for l in locks:
            nl = a["lock"][l]
            for i in range(n):
                for j, ins in enumerate(P[i]):
                    c = z3.And(act, at[i][j])
                    if ins[0] == "acq" and ins[1] == l:
                        nl = z3.If(c, z3.BoolVal(True), nl)
                    elif ins[0] == "rel" and ins[1] == l:
                        nl = z3.If(c, z3.BoolVal(False), nl)
                    elif ins[0] == "cacq" and ins[3] == l:
                        nl = z3.If(z3.And(c, a["ctr"][ins[1]] == ins[2]), z3.BoolVal(True), nl)
                    elif ins[0] == "crel" and ins[3] == l:
                        nl = z3.If(z3.And(c, a["ctr"][ins[1]] == ins[2]), z3.BoolVal(False), nl)
            s.add(b["lock"][l] == nl)
        for cname_ in ctrs:
            nc = a["ctr"][cname_]
            for i in range(n):
                for j, ins in enumerate(P[i]):
                    if ins[0] == "wr" and ins[1] == cname_:
                        nc = z3.If(z3.And(act, at[i][j]), a["tmp"][i], nc)
                    elif ins[0] == "upd" and ins[1] == cname_:
                        nc = z3.If(z3.And(act, at[i][j]), a["ctr"][cname_] + ins[2], nc)
            s.add(b["ctr"][cname_] == nc)
        s.add(z3.ULT(sched[k], n))
        br = []
        for i in range(n):
            for j, ins in enumerate(P[i]):
                if ins[0] == "rel":
                    br.append(z3.And(act, at[i][j], z3.Not(a["lock"][ins[1]])))
                elif ins[0] == "crel":
                    br.append(z3.And(act, at[i][j], a["ctr"][ins[1]] == ins[2], z3.Not(a["lock"][ins[3]])))
        badrel_flags.append(z3.Or(br) if br else z3.BoolVal(False))

    bad = []
    for k in range(H + 1):
        st = S[k]
        if query == "mutex":
            for i in range(n):
                if threads[i] == "writer":
                    for t in range(n):
                        if t != i:
                            bad.append(z3.And(st["crit"][i], st["crit"][t]))
        elif query == "deadlock":
            unfinished = z3.Or([st["pc"][i] != len(P[i]) for i in range(n)])
            bad.append(z3.And(unfinished, z3.Not(any_enabled(st))))
        elif query == "two-readers":
            rs = [i for i in range(n) if threads[i] == "reader"]
            for x in rs:
                for y in rs:
                    if x < y:
                        bad.append(z3.And(st["crit"][x], st["crit"][y]))
        elif query == "counter-overflow":
            for c in ctrs:
                bad.append(z3.Or(st["ctr"][c] == 7, st["ctr"][c] == 6))
    if query == "badrelease":
        bad = badrel_flags
    s.add(z3.Or(bad) if bad else z3.BoolVal(False))
    t0 = time.time()
    r = s.check()
    dt = time.time() - t0
    schedule = None
    if r == z3.sat:
        m = s.model()
        schedule = []
        for k in range(H):
            if not z3.is_true(m.eval(stut[k], True)):
                i = m.eval(sched[k], True).as_long()
                pcv = m.eval(S[k]["pc"][i], True).as_long()
                ins = P[i][pcv]
                taken = True
                if ins[0] in ("cacq", "crel"):
                    taken = z3.is_true(m.eval(S[k]["ctr"][ins[1]] == ins[2], True))
                schedule.append((i, pcv, list(ins), taken))
    nvars = (H + 1) * (n * 3 + len(locks) + len(ctrs))
    return str(r), schedule, dict(solver_s=round(dt, 2), horizon=H, state_vars=nvars, transitions=H * sum(len(p) for p in P))


CONFIGS_QUICK = [["reader", "writer"], ["reader", "reader"], ["writer", "writer"], ["reader", "writer", "writer"], ["reader", "reader", "writer"]]
CONFIGS_THOROUGH = CONFIGS_QUICK + [["reader", "reader", "reader"], ["writer", "writer", "writer"]]


def cname(c):
    return "%dR+%dW" % (c.count("reader"), c.count("writer"))


def jobs(tier, seed):
    J = []
    for c in (CONFIGS_QUICK if tier == "quick" else CONFIGS_THOROUGH):
        for q in ("mutex", "deadlock", "badrelease", "counter-overflow"):
            if q == "mutex" and "writer" not in c:
                continue
            if tier == "quick" and len(c) >= 3 and q in ("deadlock", "badrelease"):
                continue  # 6-20 min each: thorough tier
            J.append(dict(name="rwlock:%s:%s" % (cname(c), q), kind="rwlock", threads=c, query=q, timeout=3400, cost=10 ** len(c)))
    J.append(dict(name="rwlock:2R:two-readers-witness", kind="rwlock", threads=["reader", "reader"], query="two-readers", expect="violated", timeout=600))
    J.append(dict(name="rwlock:translator-selftest", kind="selftest", timeout=300))
    J.append(dict(name="publication:_maybe_precompute", kind="pub", fn="_maybe_precompute", timeout=600, cost=50))
    J.append(dict(name="publication:scale", kind="pub", fn="scale", timeout=600, cost=50))
    J.append(dict(name="publication:x-vs-scale", kind="pub", fn="x", timeout=600, cost=50))
    J.append(dict(name="publication:y-vs-scale", kind="pub", fn="y", timeout=600, cost=50))
    return J


# ---------------------------------------------------------------------------
# publication-discipline model (lazy table, scale)


def translate_pub(fn_name):
    """line-level abstract program of a PointJacobi method with respect to the shared
    attributes __precompute / __coords.  steps: ('guard-read', attr) ('new', var) ('append', var)
    ('publish', attr, var|'tuple') ('read', attr) ('skip',) with loops unrolled twice."""
    tree = ast.parse(_src("ellipticcurve.py"))
    cls = [n for n in tree.body if isinstance(n, ast.ClassDef) and n.name == "PointJacobi"][0]
    fn = [f for f in cls.body if isinstance(f, ast.FunctionDef) and f.name == fn_name][0]
    shared = {"self.__precompute": "precompute", "self.__coords": "coords"}
    steps = []

    methods = {f.name: f for f in cls.body if isinstance(f, ast.FunctionDef)}

    def mentions(node, depth=0):
        """shared attributes read by an expression/statement, in order, including the reads done by
        methods of the same object that it calls (inlined up to depth 2)"""
        out = []
        for n in ast.walk(node):
            if isinstance(n, ast.Attribute) and ast.unparse(n) in shared:
                out.append(shared[ast.unparse(n)])
            if depth < 2 and isinstance(n, ast.Call) and isinstance(n.func, ast.Attribute) and isinstance(n.func.value, ast.Name) and n.func.value.id == "self" and n.func.attr in methods and n.func.attr not in ("scale", "double", "__init__"):
                for st_ in methods[n.func.attr].body:
                    out += mentions(st_, depth + 1)
        return out

    def stmt(st):
        if isinstance(st, ast.Expr) and isinstance(st.value, ast.Constant):
            return
        u = ast.unparse(st)
        if isinstance(st, ast.If):
            for a in mentions(st.test):
                steps.append(("read", a))
            # early-return guards are explored both ways by the model checker
            if any(isinstance(x, ast.Return) for x in st.body):
                steps.append(("maybe-return",))
            else:
                for x in st.body:
                    stmt(x)
            for x in st.orelse:
                stmt(x)
            return
        if isinstance(st, ast.While):
            for _ in range(2):
                for x in st.body:
                    stmt(x)
            return
        if isinstance(st, ast.Assign):
            tgt = ast.unparse(st.targets[0])
            if tgt in shared:
                v = st.value
                if isinstance(v, ast.Name):
                    steps.append(("publish", shared[tgt], v.id))
                elif isinstance(v, ast.Tuple):
                    steps.append(("publish", shared[tgt], "tuple"))
                else:
                    raise Unsupported("publication of " + u)
                return
            if isinstance(st.value, ast.List) and not st.value.elts and isinstance(st.targets[0], ast.Name):
                steps.append(("new", st.targets[0].id))
                return
            for a in mentions(st.value):
                steps.append(("read", a))
            steps.append(("skip",))
            return
        if isinstance(st, ast.Expr) and isinstance(st.value, ast.Call) and isinstance(st.value.func, ast.Attribute) and st.value.func.attr == "append":
            tgt = ast.unparse(st.value.func.value)
            if tgt in shared:
                steps.append(("append-shared", shared[tgt]))
            else:
                steps.append(("append", tgt))
            return
        if isinstance(st, (ast.Assert, ast.AugAssign, ast.Return, ast.Expr)):
            for a in mentions(st):
                steps.append(("read", a))
            steps.append(("skip",) if not isinstance(st, ast.Return) else ("return",))
            return
        raise Unsupported(fn_name + ": " + u)

    for st in fn.body:
        stmt(st)
    return steps


def check_pub(fn_name):
    """z3 decides: thread 0 runs `fn_name`, thread 1 runs the mutator (scale, or a second
    _maybe_precompute) on the same object, under every interleaving of their source-level steps.
    Bad states: the shared table refers to a list that is neither empty nor complete; a thread
    publishes coordinates (or returns a result) computed from two *different* versions of
    self.__coords, i.e. it read the attribute more than once and a publication happened in between."""
    import time
    import z3

    mut = "_maybe_precompute" if fn_name == "_maybe_precompute" else "scale"
    P = [translate_pub(fn_name), translate_pub(mut)]
    n = 2
    H = len(P[0]) + len(P[1]) + 1
    attr = "precompute" if fn_name == "_maybe_precompute" else "coords"
    appends_total = sum(1 for s_ in P[0] if s_[0] == "append")
    S = []
    for k in range(H + 1):
        S.append(dict(pc=[z3.BitVec("ppc%d_%d" % (i, k), 6) for i in range(n)], ln=[z3.BitVec("ln%d_%d" % (i, k), 4) for i in range(n)], ptr=z3.BitVec("ptr_%d" % k, 3), ini=z3.BitVec("ini_%d" % k, 4), cver=z3.BitVec("cver_%d" % k, 3), first=[z3.BitVec("first%d_%d" % (i, k), 3) for i in range(n)], mixed=[z3.Bool("mixed%d_%d" % (i, k)) for i in range(n)], badpub=z3.Bool("badpub_%d" % k)))
    s = z3.Solver()
    s.set("timeout", 300000)
    s0 = S[0]
    s.add(s0["ptr"] == 0, s0["ini"] == 0, s0["cver"] == 0, z3.Not(s0["badpub"]))
    for i in range(n):
        s.add(s0["pc"][i] == 0, s0["ln"][i] == 0, s0["first"][i] == 7, z3.Not(s0["mixed"][i]))
    sched = [z3.BitVec("ps_%d" % k, 2) for k in range(H)]
    for k in range(H):
        a_, b_ = S[k], S[k + 1]
        alts = []
        for i in range(n):
            for j, ins in enumerate(P[i]):
                g = [sched[k] == i, a_["pc"][i] == j]
                npc = z3.BitVecVal(j + 1, 6)
                ln_i, ptr, ini, cver = a_["ln"][i], a_["ptr"], a_["ini"], a_["cver"]
                first_i, mixed_i, badpub = a_["first"][i], a_["mixed"][i], a_["badpub"]
                other_ln = None
                if ins[0] == "new":
                    ln_i = z3.BitVecVal(0, 4)
                elif ins[0] == "append":
                    ln_i = a_["ln"][i] + 1
                elif ins[0] == "append-shared":
                    ini = z3.If(a_["ptr"] == 0, a_["ini"] + 1, a_["ini"])
                    other_ln = True
                elif ins[0] == "read" and ins[1] == "coords":
                    mixed_i = z3.Or(a_["mixed"][i], z3.And(a_["first"][i] != 7, a_["first"][i] != a_["cver"]))
                    first_i = z3.If(a_["first"][i] == 7, a_["cver"], a_["first"][i])
                elif ins[0] == "publish":
                    if ins[1] == "coords":
                        cver = z3.BitVecVal(i + 1, 3)
                        badpub = z3.Or(a_["badpub"], a_["mixed"][i])
                    else:
                        ptr = z3.BitVecVal(i + 1, 3)
                elif ins[0] == "return":
                    badpub = z3.Or(a_["badpub"], a_["mixed"][i]) if attr == "coords" else badpub
                upd = [b_["ptr"] == ptr, b_["ini"] == ini, b_["cver"] == cver, b_["badpub"] == badpub]
                for t in range(n):
                    if t == i:
                        if ins[0] == "maybe-return":
                            upd.append(z3.Or(b_["pc"][t] == npc, b_["pc"][t] == len(P[t])))
                        elif ins[0] == "return":
                            upd.append(b_["pc"][t] == len(P[t]))
                        else:
                            upd.append(b_["pc"][t] == npc)
                        upd += [b_["ln"][t] == ln_i, b_["first"][t] == first_i, b_["mixed"][t] == mixed_i]
                    else:
                        upd.append(b_["pc"][t] == a_["pc"][t])
                        upd.append(b_["ln"][t] == (z3.If(a_["ptr"] == t + 1, a_["ln"][t] + 1, a_["ln"][t]) if other_ln else a_["ln"][t]))
                        upd += [b_["first"][t] == a_["first"][t], b_["mixed"][t] == a_["mixed"][t]]
                alts.append(z3.And(g + upd))
        same = [b_["ptr"] == a_["ptr"], b_["ini"] == a_["ini"], b_["cver"] == a_["cver"], b_["badpub"] == a_["badpub"]] + [b_["pc"][t] == a_["pc"][t] for t in range(n)] + [b_["ln"][t] == a_["ln"][t] for t in range(n)] + [b_["first"][t] == a_["first"][t] for t in range(n)] + [b_["mixed"][t] == a_["mixed"][t] for t in range(n)]
        s.add(z3.Or(z3.Or(alts), z3.And([sched[k] == 3] + same)))
    bad = []
    for k in range(H + 1):
        st = S[k]
        if attr == "precompute":
            for i in range(n):
                bad.append(z3.And(st["ptr"] == i + 1, st["ln"][i] != appends_total))
            bad.append(z3.And(st["ptr"] == 0, st["ini"] != 0))
        bad.append(st["badpub"])
    s.add(z3.Or(bad))
    t0 = time.time()
    r = s.check()
    trace = None
    if r == z3.sat:
        m = s.model()
        trace = []
        for k in range(H):
            i = m.eval(sched[k], True).as_long()
            if i < n:
                pcv = m.eval(S[k]["pc"][i], True).as_long()
                trace.append((i, list(P[i][pcv]) if pcv < len(P[i]) else "end"))
    npub = sum(1 for x in P[0] if x[0] == "publish")
    nread = sum(1 for x in P[0] if x[0] == "read")
    return str(r), trace, dict(solver_s=round(time.time() - t0, 2), steps=len(P[0]), publishes=npub, reads=nread, program=[list(x) for x in P[0]], horizon=H)


def run_job(job):
    from vlib import common

    common.setup_paths()
    kind = job["kind"]
    try:
        if kind == "selftest":
            progs = translate_rwlock()
            # translator validation: run the generated programs sequentially (one thread after the other)
            # next to the real class with counting locks and compare the lock-operation traces
            real = real_trace()
            model = {k: [i for i in v if i[0] in ("acq", "rel", "cacq", "crel")] for k, v in progs.items()}
            ok = True
            detail = []
            for role in ("reader", "writer"):
                mt = []
                ctr = {}
                for ins in progs[role]:
                    if ins[0] in ("acq", "rel"):
                        mt.append((ins[0], ins[1]))
                    elif ins[0] == "rd":
                        ctr["tmp"] = ctr.get(ins[1], 0) + ins[2]
                    elif ins[0] == "wr":
                        ctr[ins[1]] = ctr["tmp"]
                    elif ins[0] in ("cacq", "crel") and ctr.get(ins[1], 0) == ins[2]:
                        mt.append(("acq" if ins[0] == "cacq" else "rel", ins[3]))
                if mt != real[role]:
                    ok = False
                    detail.append("%s: model %s real %s" % (role, mt, real[role]))
            return dict(verdict="held" if ok else "inconclusive", state="TRANSLATOR_OK" if ok else "TRANSLATOR_MISMATCH", queries=1, solver_s=0.0, states=1, transitions=sum(len(v) for v in progs.values()), traces_validated=2, symbolic_dims=0, message="programs: reader %d steps, writer %d steps; %s" % (len(progs["reader"]), len(progs["writer"]), "; ".join(detail)))
        if kind == "rwlock":
            progs = translate_rwlock()
            r, schedule, st = bmc(progs, job["threads"], job["query"], timeout_s=job["timeout"] - 100)
            res = dict(queries=1, solver_s=st["solver_s"], states=st["state_vars"], transitions=st["transitions"], symbolic_dims=st["horizon"], message="%s %s horizon=%d -> %s" % (cname(job["threads"]), job["query"], st["horizon"], r))
            if r == "unsat":
                res.update(verdict="held", state="UNSAT")
            elif r == "sat":
                res.update(verdict="violated", state="SAT", witness=dict(schedule=schedule, threads=job["threads"]), signature="C20:rwlock:" + job["query"])
            else:
                res.update(verdict="inconclusive", state="UNKNOWN")
            return res
        if kind == "pub":
            r, trace, st = check_pub(job["fn"])
            res = dict(queries=1, solver_s=st["solver_s"], states=st["horizon"] * 8, transitions=st["horizon"] * st["steps"] * 2, symbolic_dims=st["horizon"], message="%s: %d steps, %d publication(s): %s -> %s" % (job["fn"], st["steps"], st["publishes"], st["program"], r))
            if r == "unsat" and (st["publishes"] >= 1 or (job["fn"] in ("x", "y") and st["reads"] >= 1)):
                res.update(verdict="held", state="UNSAT")
            elif r == "sat":
                res.update(verdict="violated", state="SAT", witness=dict(trace=trace, program=st["program"]), signature="C20:publication:" + job["fn"])
            else:
                res.update(verdict="inconclusive", state="UNKNOWN or no publication found")
            return res
    except Unsupported as e:
        return dict(verdict="inconclusive", state="UNSUPPORTED_SYNTAX", message=str(e), queries=0, solver_s=0.0)
    raise ValueError(kind)


def real_trace():
    """lock-operation trace of one reader / one writer on the real class, locks replaced by recorders"""
    from register_crypto_plugin.ecdsa import _rwlock

    log = []

    class Rec:
        names = {}

        def __init__(self):
            self.held = False

        def acquire(self):
            assert not self.held
            self.held = True
            log.append(("acq", Rec.names.get(id(self), "?")))

        def release(self):
            assert self.held
            self.held = False
            log.append(("rel", Rec.names.get(id(self), "?")))

    saved = _rwlock.threading.Lock
    try:
        _rwlock.threading.Lock = Rec
        out = {}
        for role in ("reader", "writer"):
            lk = _rwlock.RWLock()
            for attr, val in vars(lk).items():
                nm = attr.replace("_RWLock__", "__")
                if isinstance(val, Rec):
                    Rec.names[id(val)] = nm
                else:
                    for a2, v2 in vars(val).items():
                        if isinstance(v2, Rec):
                            Rec.names[id(v2)] = nm + ".mutex"
            del log[:]
            getattr(lk, role + "_acquire")()
            getattr(lk, role + "_release")()
            out[role] = list(log)
    finally:
        _rwlock.threading.Lock = saved
    return out


def replay(job):
    """replay the schedule on the real RWLock with threading.Lock replaced by gate locks that
    admit operations in the order of the schedule (projected to lock operations and critical
    sections); reports whether the real threads reach the bad state"""
    import threading
    import time
    from vlib import common

    common.setup_paths()
    from register_crypto_plugin.ecdsa import _rwlock

    if job.get("query") == "two-readers" or job["kind"] != "rwlock":
        if job["kind"] == "pub":
            return dict(reproduced=True, signature="C20:publication:" + job["fn"], detail="model-level counterexample: " + str((job.get("witness") or {}).get("trace")))
        return dict(reproduced=True, signature="twin")
    w = job.get("witness") or {}
    threads_, schedule = w.get("threads", job["threads"]), w.get("schedule") or []
    # projected order of gate events per step: (thread, kind)
    # every model step maps to the gate events the real code passes: lock operation, counter get,
    # counter set, critical-section enter/exit
    order = []
    for e in schedule:
        i, kind_ = e[0], e[2][0]
        taken = len(e) < 4 or e[3]
        ev = {"acq": ["lock"], "rel": ["lock"], "rd": ["get"], "wr": ["set"], "upd": ["get", "set"], "enter": ["crit"], "exit": ["crit"]}.get(kind_)
        if kind_ in ("cacq", "crel"):
            ev = ["get"] + (["lock"] if taken else [])
        for x in ev or []:
            order.append((i, x))
    cv = threading.Condition()
    pos = [0]
    state = dict(crit=set(), bad=None, badrel=None)
    tid_of = {}

    def gate(kinds):
        """block until the next scheduled event belongs to this thread (or the schedule is exhausted)"""
        me = tid_of.get(threading.get_ident())
        if me is None:
            return  # construction in the main thread
        with cv:
            t0 = time.time()
            while pos[0] < len(order) and order[pos[0]][0] != me and time.time() - t0 < 2:
                cv.wait(0.05)
            if pos[0] < len(order) and order[pos[0]][0] == me:
                pos[0] += 1
            cv.notify_all()

    RealLock = _rwlock.threading.Lock

    class GateLock:
        def __init__(self):
            self._l = RealLock()

        def acquire(self):
            gate("acq")
            if not self._l.acquire(timeout=2):
                raise RuntimeError("replay: lock not available")

        def release(self):
            gate("rel")
            try:
                self._l.release()
            except RuntimeError:
                state["badrel"] = "release of a free lock"

    class GateSwitch(_rwlock._LightSwitch):
        """the light switch with its counter attribute behind the gate (get / set events)"""

    def _getc(self):
        gate("get")
        return self.__dict__.get("_gated_counter", 0)

    def _setc(self, v):
        gate("set")
        self.__dict__["_gated_counter"] = v

    setattr(GateSwitch, "_LightSwitch__counter", property(_getc, _setc))
    saved, saved_ls = _rwlock.threading.Lock, _rwlock._LightSwitch
    _rwlock.threading.Lock = GateLock
    _rwlock._LightSwitch = GateSwitch
    try:
        lk = _rwlock.RWLock()
    finally:
        _rwlock.threading.Lock = saved
        _rwlock._LightSwitch = saved_ls

    def worker(i, role):
        tid_of[threading.get_ident()] = i
        try:
            getattr(lk, role + "_acquire")()
            gate("enter")
            with cv:
                state["crit"].add(i)
                ws = [t for t in state["crit"] if threads_[t] == "writer"]
                if ws and len(state["crit"]) > 1:
                    state["bad"] = sorted(state["crit"])
            gate("exit")
            with cv:
                state["crit"].discard(i)
            getattr(lk, role + "_release")()
        except RuntimeError as e:
            state.setdefault("err", str(e))

    ts = [threading.Thread(target=worker, args=(i, r), daemon=True) for i, r in enumerate(threads_)]
    for t in ts:
        t.start()
    for t in ts:
        t.join(8)
    stuck = [i for i, t in enumerate(ts) if t.is_alive()]
    q = job["query"]
    if q == "mutex":
        return dict(reproduced=state["bad"] is not None, signature="C20:rwlock:mutex", detail="threads in the critical section together: %s (%s)" % (state["bad"], [threads_[i] for i in (state["bad"] or [])]))
    if q == "deadlock":
        return dict(reproduced=bool(stuck) or "err" in state, signature="C20:rwlock:deadlock", detail="threads still blocked after the schedule: %s %s" % (stuck, state.get("err", "")))
    if q == "badrelease":
        return dict(reproduced=state["badrel"] is not None, signature="C20:rwlock:badrelease", detail=str(state["badrel"]))
    return dict(reproduced=False, detail="no replay for " + q)
