"""C09 - ECC auth block is decryptable by an independent ECIES implementation."""
import io

PROPERTY = "C09"
FILES = ["bec2format/bec2file.py", "bec2format/crypto.py", "appnotes/register_crypto_plugin/__init__.py", "appnotes/register_crypto_plugin/ecdsa/ellipticcurve.py", "appnotes/register_crypto_plugin/ecdsa/ecdsa.py"]
META = dict(
    level="other",
    engines="AB",
    files=FILES,
    technique="bounded symbolic execution (CrossHair/z3) of InitEccAuthBlock.pack / EccEncryptor.encrypt / EccDecryptor.decrypt with ECDH, SHA-256 and AES-CBC as uninterpreted functions against an independently written ECIES receiver model; public-point validation of the vendored library executed on bit-vector / integer proxies (Engine B)",
    level_text="Solver verdict over all session keys, recipient and ephemeral key identities for selectors 0..3: block = selector | 04 | pub(ephemeral) | CBC(SHA(DH(ephemeral, recipient))[:16], session key); the independent receiver model recovers exactly the session key; without an explicit recipient the DH partner is the published key of that selector; a block not starting with 04 is refused. Point validation: the real curve-membership test equals the textbook predicate for every (x, y) on tiny prime fields (bit-vector, complete) and on P-256 (integer proxies, polynomial identity).",
    level_note="NOT decided here: that OpenSSL recovers the key (opaque binary; 256-bit scalar multiplication is beyond bit-blasting) - the independent implementation is a specification model. Trusted: z3, CrossHair proxies, the UF contracts (DH symmetric, AES-CBC bijection, SHA-256 function), Engine B proxies.",
    explanation="Bounded symbolic verification of the protocol wiring with CrossHair (z3) and of the on-curve predicate with Engine B proxies driving the real CurveFp.contains_point / PointJacobi.from_bytes validation.",
    functions=["InitEccAuthBlock.pack", "InitEccAuthBlock.unpack", "AuthBlock.select_encryptor", "EccEncryptor.__init__", "EccEncryptor.encrypt", "EccDecryptor.decrypt", "PublicEccKey.create_from_raw_fmt", "PublicEccKey.to_raw_bin_fmt", "CurveFp.contains_point", "ellipticcurve.AbstractPoint._from_raw_encoding"],
    stubs=["S-cbc", "S-sha", "S-ecc"],
    assumptions=["ECDH modelled as a symmetric UF over key identities", "OpenSSL interoperability is outside the claim"],
    bounds=dict(quick="selectors 0..3; explicit recipient, EccDecryptor as encryptor, and published-key fallback; marker byte symbolic; shared-secret serialisation of the real adapter for 10 boundary classes of the shared x (leading zero bytes 0..31); validation: primes {11, 13} complete + P-256 identity", thorough="same plus primes {17, 19, 23}"),
    outside=["agreement with OpenSSL", "real P-256 scalar multiplication", "ECDH arithmetic (C17, tiny fields)"],
)


def jobs(tier, seed):
    J = []
    for sel in range(4):
        J.append(dict(name="wiring:explicit:sel%d" % sel, kind="wiring", mode="explicit", sel=sel, timeout=600, cost=50))
        J.append(dict(name="wiring:published:sel%d" % sel, kind="wiring", mode="published", sel=sel, timeout=600, cost=50))
    for sel in (0, 3):
        J.append(dict(name="history:published-after-explicit:sel%d" % sel, kind="wiring", mode="published-after-explicit", sel=sel, timeout=600, cost=60))
        J.append(dict(name="history:second-recipient:sel%d" % sel, kind="wiring", mode="second-recipient", sel=sel, timeout=600, cost=60))
    J.append(dict(name="wiring:decryptor-as-encryptor:sel1", kind="wiring", mode="decryptor", sel=1, timeout=600, cost=50))
    for sel in range(4):
        J.append(dict(name="wiring:wrong-selector-encryptor-ignored:sel%d" % sel, kind="wiring", mode="mismatch", sel=sel, timeout=600, cost=50))
    J.append(dict(name="refuse:marker", kind="marker", timeout=600, cost=30))
    J.append(dict(name="dh-secret:fixed-width-serialisation", kind="dhbytes", timeout=900, cost=60))
    J.append(dict(name="wiring:twin", kind="wiring", mode="explicit", sel=0, twin=True, expect="violated", timeout=300))
    primes = [11, 13] if tier == "quick" else [11, 13, 17, 19, 23]
    for p in primes:
        J.append(dict(name="validation:contains_point:p%d" % p, kind="oncurve", p=p, timeout=900, cost=100))
    J.append(dict(name="validation:contains_point:P-256", kind="oncurve256", timeout=900, cost=100))
    J.append(dict(name="validation:from_bytes-rejects-offcurve:p13", kind="frombytes", p=13, timeout=900, cost=100))
    return J


def run_job(job):
    kind = job["kind"]
    if kind in ("oncurve", "oncurve256", "frombytes"):
        from props import c17

        return c17.run_validation(job)
    import z3
    from vlib.enginea import sym, runner, stubs

    stubs.load_repo()
    stubs.install_uf_cbc()
    stubs.install_uf_sha()
    UFPrivate, UFPublic = stubs.install_uf_ecc()
    from bec2format import bec2file as b2

    if kind == "dhbytes":
        import register_crypto_plugin as plug

        P256 = 2 ** 256 - 2 ** 224 + 2 ** 192 + 2 ** 96 - 1
        CLASSES = [1, 0xFF, 0x100, 2 ** 200 + 7, 2 ** 240, 2 ** 247 + 5, 2 ** 248 - 1, 2 ** 248, 2 ** 255 + 3, P256 - 1]

        def h():
            x = sym.sym_int("sharedx", 1, P256)
            sym.assume(z3.Or([sym.expr_of(x) == c for c in CLASSES]))
            saved = plug.ECDH.generate_sharedsecret
            plug.ECDH.generate_sharedsecret = lambda self: x
            try:
                k = plug.PrivateEccKeyProxy.generate()
                out = k.compute_dh_secret(k.public_key)
            finally:
                plug.ECDH.generate_sharedsecret = saved
            ok = len(out) == 32 and int.from_bytes(out, "big") == x
            if not ok:
                runner.record_witness(x=x, out=out)
            return ok

        res = runner.run(h, 800, 800)
        res["symbolic_dims"] = 1
        if res["verdict"] == "violated":
            res["signature"] = "C09:dh-secret-serialisation"
        return res

    if kind == "marker":
        def h():
            recipient = UFPrivate.generate()
            d = b2.EccDecryptor(0, recipient)
            m = sym.sym_int("m", 0, 256)
            ct = bytes([m]) + sym.sym_bytes("rest", 80)
            try:
                d.decrypt(ct)
            except ValueError:
                return bool(m != 4)
            return bool(m == 4)

        res = runner.run(h, 500, 500)
        res["symbolic_dims"] = 81
        if res["verdict"] == "violated":
            res["signature"] = "C09:marker"
        return res

    sel, mode, twin = job["sel"], job["mode"], job.get("twin")

    def h():
        stubs.reset_log()
        key = sym.sym_bytes("key", 16)
        recipient = UFPrivate.generate()
        other = UFPrivate.generate()
        blk = b2.InitEccAuthBlock(sel)
        if mode == "published-after-explicit":
            # an encryptor with an explicit recipient existed before: the default must still be the published key
            b2.EccDecryptor(sel, other)
            b2.EccEncryptor(sel, other.public_key).encrypt(key)
            enc = []
            rpub = b2.EccEncryptor.DEFAULT_PUBLIC_KEYS[sel][27:]
        elif mode == "second-recipient":
            # a block for another recipient was made first (same selector)
            b2.InitEccAuthBlock(sel).pack(key, [b2.EccEncryptor(sel, other.public_key)])
            enc = [b2.EccEncryptor(sel, recipient.public_key)]
            rpub = recipient.public_key.raw
        elif mode == "explicit":
            enc = [b2.EccEncryptor(sel, recipient.public_key)]
            rpub = recipient.public_key.raw
        elif mode == "decryptor":
            enc = [b2.EccDecryptor(sel, recipient)]
            rpub = recipient.public_key.raw
        elif mode == "mismatch":
            # an encryptor for another selector must not be used: falls back to the published key of `sel`
            enc = [b2.EccEncryptor((sel + 1) % 4, other.public_key)]
            rpub = b2.EccEncryptor.DEFAULT_PUBLIC_KEYS[sel][27:]
        else:
            enc = []
            rpub = b2.EccEncryptor.DEFAULT_PUBLIC_KEYS[sel][27:]
        n0 = len(stubs.LOG["keygen"])
        out = blk.pack(key, enc)
        ok = len(stubs.LOG["keygen"]) == n0 + 1 and len(out) == 1 + 1 + 64 + 16
        if ok:
            eph = stubs.LOG["keygen"][-1]
            # independent ECIES receiver model: DH with the recipient's key against the published ephemeral point
            ok = out[0] == sel and out[1] == 4 and out[2:66] == eph.public_key.raw
            secret = eph.compute_dh_secret(UFPublic(rpub))
            want_ct = stubs.model_cbc_encrypt(stubs.model_sha(secret)[:16], None, key)
            ok = ok and out[66:] == want_ct
            if ok and mode in ("explicit", "decryptor", "second-recipient"):
                # receiver side: from the block alone + the recipient's private key
                sec2 = recipient.compute_dh_secret(UFPublic(out[2:66]))
                ok = stubs.model_cbc_decrypt(stubs.model_sha(sec2)[:16], None, out[66:]) == key
                # and the library's own unpack returns the same key and selector
                if ok:
                    blk2, k2 = b2.InitEccAuthBlock.unpack(out, [b2.EccDecryptor(sel, recipient)])
                    ok = k2 == key and blk2.key_selector == sel
        if twin:
            ok = False
        if not ok:
            runner.record_witness(key=key)
        return ok

    res = runner.run(h, job["timeout"] - 60, job["timeout"] - 60)
    res["symbolic_dims"] = 18
    if res["verdict"] == "violated":
        res["signature"] = "C09:wiring:" + mode
    return res


def _unhex(w):
    if isinstance(w, dict):
        if set(w) == {"hex"}:
            return bytes.fromhex(w["hex"])
        return {k: _unhex(v) for k, v in w.items()}
    return w


def replay(job):
    """real P-256 ECDH, SHA-256 and AES through an independently written ECIES
    receiver (own ECDH via the vendored ECDH class is avoided: the shared point
    is computed with plain scalar multiplication on the recipient's number)."""
    import hashlib
    import register_crypto_plugin as plug
    from register_crypto_plugin.pyaes import AESModeOfOperationCBC
    from register_crypto_plugin.ecdsa import NIST256p, SigningKey
    from register_crypto_plugin.ecdsa.ellipticcurve import Point
    from bec2format import bec2file as b2

    if job.get("twin"):
        return dict(reproduced=True, signature="twin")
    kind = job["kind"]
    if kind in ("oncurve", "oncurve256", "frombytes"):
        from props import c17

        return c17.replay_validation(job)
    w = _unhex(job.get("witness") or {})
    key = w.get("key", bytes(range(16)))
    if kind == "dhbytes":
        x = int(w.get("x", 2 ** 240))
        saved = plug.ECDH.generate_sharedsecret
        plug.ECDH.generate_sharedsecret = lambda self: x
        try:
            k = plug.PrivateEccKeyProxy.generate()
            out = k.compute_dh_secret(k.public_key)
        finally:
            plug.ECDH.generate_sharedsecret = saved
        bad = len(out) != 32 or int.from_bytes(out, "big") != x
        return dict(reproduced=bad, signature="C09:dh-secret-serialisation", detail="shared x = %x serialised as %d bytes %s (an independent ECIES hashes the 32-byte big-endian x)" % (x, len(out), out.hex()))
    if kind == "marker":
        d = b2.EccDecryptor(0, plug.PrivateEccKeyProxy.generate())
        try:
            d.decrypt(b"\x05" + bytes(80))
            return dict(reproduced=True, signature="C09:marker", detail="marker 05 accepted")
        except ValueError:
            return dict(reproduced=False)
        except Exception as e:
            return dict(reproduced=True, signature="C09:marker", detail="%s" % type(e).__name__)
    sel, mode = job["sel"], job["mode"]
    curve = NIST256p
    # test key pairs with known private numbers stand in for the published keys
    sks = [SigningKey.from_secret_exponent(1000003 + 7 * i, curve=curve) for i in range(4)]
    saved = dict(b2.EccEncryptor.DEFAULT_PUBLIC_KEYS)
    try:
        for i in range(4):
            b2.EccEncryptor.DEFAULT_PUBLIC_KEYS[i] = sks[i].verifying_key.to_der()
        recipient = plug.PrivateEccKeyProxy(sks[sel])
        other = plug.PrivateEccKeyProxy(SigningKey.from_secret_exponent(424243, curve=curve))
        if mode == "published-after-explicit":
            b2.EccDecryptor(sel, other)
            b2.EccEncryptor(sel, other.public_key).encrypt(key)
            enc = []
        elif mode == "second-recipient":
            b2.InitEccAuthBlock(sel).pack(key, [b2.EccEncryptor(sel, other.public_key)])
            enc = [b2.EccEncryptor(sel, recipient.public_key)]
        elif mode == "explicit":
            enc = [b2.EccEncryptor(sel, recipient.public_key)]
        elif mode == "decryptor":
            enc = [b2.EccDecryptor(sel, recipient)]
        elif mode == "mismatch":
            enc = [b2.EccEncryptor((sel + 1) % 4, other.public_key)]
        else:
            enc = []
        out = b2.InitEccAuthBlock(sel).pack(key, enc)
    finally:
        b2.EccEncryptor.DEFAULT_PUBLIC_KEYS.update(saved)
    problems = []
    if not (len(out) == 82 and out[0] == sel and out[1] == 4):
        problems.append("layout %s" % out[:2].hex())
    else:
        x, y = int.from_bytes(out[2:34], "big"), int.from_bytes(out[34:66], "big")
        c = curve.curve
        if (y * y - (x * x * x + c.a() * x + c.b())) % c.p() != 0:
            problems.append("ephemeral point not on curve")
        else:
            d = sks[sel].privkey.secret_multiplier
            shared = Point(c, x, y) * d
            k = hashlib.sha256(shared.x().to_bytes(32, "big")).digest()[:16]
            got = AESModeOfOperationCBC(k, bytes(16)).decrypt(out[66:82])
            if got != key:
                tried = [i for i in range(4) if AESModeOfOperationCBC(hashlib.sha256((Point(c, x, y) * sks[i].privkey.secret_multiplier).x().to_bytes(32, "big")).digest()[:16], bytes(16)).decrypt(out[66:82]) == key]
                problems.append("holder of the selector-%d key recovers %s instead of the session key; keys that do recover it: selectors %s" % (sel, got.hex(), tried))
    return dict(reproduced=bool(problems), signature="C09:wiring:" + mode, detail="; ".join(problems))
