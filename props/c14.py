"""C14 - parsers fail only with format errors (FormatError / ValueError) and always terminate."""
import io

PROPERTY = "C14"
FILES = ["bec2format/bf3file.py", "bec2format/bec2file.py", "bec2format/bytes_reader.py", "bec2format/configid.py", "bec2format/error.py", "appnotes/register_crypto_plugin/__init__.py", "appnotes/register_crypto_plugin/pyaes/blockfeeder.py"]
ALLOWED = "FormatError subclasses and ValueError"
META = dict(
    level="other",
    engines="A",
    files=FILES,
    technique="bounded symbolic execution (CrossHair/z3) of every parsing entry point on valid skeletons with symbolic fields and on arbitrary (fully symbolic) auth-block contents of boundary lengths under every decryptor set; the assertion is on the exception class; exhaustive path exploration doubles as the termination argument",
    level_text="Solver verdict over all values of the symbolic fields / block contents: each call returns or raises only a library format error or ValueError (never IndexError, KeyError, TypeError, OverflowError, AssertionError, bare Exception, NotImplementedError), every path terminates (CrossHair confirms all paths within the budget; every reader loop consumes >= 1 byte of a finite buffer), and the crypto registry objects are the same objects afterwards.",
    level_note="AES-CBC is an uninterpreted bijection, so a decrypted frame is arbitrary and every frame-parser branch is reachable. The ECC key loader of the plug-in is modelled by its contract (returns a key or raises what the real adapter raises for a malformed point - determined at start-up by probing the real adapter with an off-curve point) and additionally run for real on 256 concrete variations of one coordinate byte. Arbitrary *text* is reduced to arbitrary binary by C01's hex lemmas (any text is either rejected by the hex layer with Bf3FileFormatError or yields some binary). Unstructured binaries longer than the symbolic parts are outside.",
    explanation="Bounded symbolic verification with CrossHair (z3) of Bf3File.read_file/from_binary, Bec2File.read_file/unpack_auth_blocks with all AuthBlock.unpack methods and encryptor decrypt methods, Bf3File.bf2_import (object-list front end), pfid2_filter_to_str.",
    functions=["Bf3File.read_file", "Bf3File.from_binary", "Bf3File.dir_from_binary", "Bec2File.read_file", "Bec2File.unpack_auth_blocks", "InitCustKeyAuthBlock.unpack", "InitEccAuthBlock.unpack", "UpdateAuthBlock.unpack", "AesEncryptorMixin.decrypt", "SoftwareCustKeyEncryptor.decrypt", "EccDecryptor.decrypt", "AES128Proxy.decrypt/mac", "BlockFeeder.feed", "Bf3File.bf2_import", "Bf3File.exec_bf2instrs", "Bf3File.annotations", "pfid2_filter_to_str", "PublicEccKeyProxy.create_from_der_fmt (real, 256 concrete variations)"],
    stubs=["S-io", "S-cbc", "S-crc", "S-sha", "S-ecc with the real adapter's exception contract", "text-layer bypass", "parse_bf2_file -> object list"],
    assumptions=["ECC key loading raises only what the real adapter raises for a malformed point (probed at start-up)"],
    bounds=dict(quick="BEC2: each block kind x content lengths {0,1,16,17} (AES) / {0,1,2,65,66,82,83} (ECC) x decryptor sets {none, cust, code, ecc-private, wrong-key}; BF3: declared/stored length pairs in 0..2 incl. (0,0), ENC tag on a plain component; BF2 instruction-order shapes; filter strings of 2..4 bytes", thorough="adds lengths up to 48 and two damaged blocks"),
    outside=["unstructured binaries", "create_from_str (C12 model: only ConfigIdFormatError is raised)", "text tokenising of BF2 files"],
)

AES_LENS = [0, 1, 16, 17]
ECC_LENS = [0, 1, 2, 65, 66, 82, 83]
DECSETS = ["none", "cust", "code", "ecc", "wrong"]


def jobs(tier, seed):
    J = []
    aes = AES_LENS + ([15, 31, 32, 33, 47, 48] if tier == "thorough" else [])
    for dec in DECSETS:
        for kind, lens in (("cust", aes), ("update", aes), ("ecc", ECC_LENS), ("unknown", [0, 3])):
            J.append(dict(name="bec2:%s-block:dec=%s" % (kind, dec), kind="bec2", block=kind, lens=lens, dec=dec, tier=tier, timeout=3400 if tier == "quick" else 20000, cost=200))
    N = 5 + 34 + 84 + 34 + 2 + 6
    for a in range(0, N, 21):
        J.append(dict(name="bec2:header-truncated:%d-%d" % (a, min(N, a + 21) - 1), kind="bec2trunc", lo=a, hi=min(N, a + 21), timeout=1500, cost=100))
    J.append(dict(name="bf3:zero-lengths", kind="bf3len", timeout=1500, cost=200))
    J.append(dict(name="bf3:300-entries", kind="bf3many", n=300, timeout=3000, cost=800))
    J.append(dict(name="bf3:enc-tag-on-unaligned-payload", kind="bf3enc", timeout=900, cost=100))
    for shape in ("reboot-first", "double-check-fwver", "loader-without-interface", "select-without-filter", "bad-firmware-line", "peripheral-bad-filter", "unknown-instruction", "load-only"):
        J.append(dict(name="bf2:%s" % shape, kind="bf2", shape=shape, timeout=900, cost=50))
    J.append(dict(name="pfid2:short-strings", kind="pfid2", timeout=900, cost=100))
    J.append(dict(name="ecc-key-load:real-adapter", kind="ecckey", timeout=1500, cost=300))
    J.append(dict(name="twin:reachability", kind="bec2", block="cust", lens=[16], dec="cust", twin=True, expect="violated", timeout=600))
    return J


def allowed_exc(e):
    from bec2format.error import FormatError

    return isinstance(e, (FormatError, ValueError))


def probe_real_ecc_contract():
    """what the real adapter raises for a malformed public point"""
    import register_crypto_plugin as plug

    try:
        plug.PublicEccKeyProxy.create_from_raw_fmt(bytes(64))
        return None
    except Exception as e:
        return type(e)


def run_job(job):
    import z3
    from vlib.enginea import sym, runner, stubs

    kind = job["kind"]
    stubs.load_repo()
    from bec2format import bf3file as bf, bec2file as b2, crypto
    from bec2format.error import FormatError

    if kind == "ecckey":
        import register_crypto_plugin as plug
        from register_crypto_plugin.ecdsa import NIST256p

        G = NIST256p.generator
        gx, gy = int(G.x()).to_bytes(32, "big"), int(G.y()).to_bytes(32, "big")

        def h():
            last = sym.sym_int("ylast", 0, 256)
            raw = gx + gy[:31] + bytes([last])
            try:
                k = plug.PublicEccKeyProxy.create_from_raw_fmt(raw)
            except Exception as e:
                if allowed_exc(e):
                    return True
                runner.record_witness(raw=raw, exc=type(e).__name__)
                return False
            return bool(last == gy[31])

        res = runner.run(h, job["timeout"] - 60, job["timeout"] - 60)
        res["symbolic_dims"] = 1
        if res["verdict"] == "violated":
            res["signature"] = "C14:ecc-key-load:" + str((res.get("witness") or {}).get("exc"))
        return res

    ECC_EXC = probe_real_ecc_contract()
    stubs.install_uf_cbc()
    stubs.install_uf_crc()
    stubs.install_uf_sha()
    UFPrivate, UFPublic = stubs.install_uf_ecc()
    stubs.install_text_bypass()
    stubs.install_forking_authmap()
    # the stub key loader follows the real adapter's contract: it may refuse any point
    real_create = UFPublic.create_from_der_fmt.__func__

    NONDET = [False]  # only the parser under test sees a key loader that may refuse the point

    def create_from_der_fmt(cls, der_fmt):
        if NONDET[0] and ECC_EXC is not None and sym.sym_int("offcurve", 0, 2) == 1:
            raise ECC_EXC("Point does not lay on the curve (contract of the real adapter)")
        return real_create(cls, der_fmt)

    UFPublic.create_from_der_fmt = classmethod(create_from_der_fmt)
    registry_before = [crypto.create_AES128.__globals__[n] for n in ("_%s__AES128" % "", ) if n in crypto.create_AES128.__globals__]

    def registry():
        g = vars(crypto)
        return [g.get("__AES128"), g.get("__PublicEccKey"), g.get("__PrivateEccKey"), g.get("__random_bytes")]

    from vlib import common as _common
    from bec2format import hwcids, configid

    def snapshot():
        try:
            with sym.NoTracing():
                return _common.global_snapshot([bf, b2, hwcids, configid])
        except BaseException as e:
            if type(e).__name__ != "CrossHairInternal":
                raise
            # a symbolic value was stored in global state: that is a change in itself
            return [("unreadable global state", type(e).__name__)]

    def call(fn, vals, tag):
        """run a parser call; True iff it returns or raises an allowed class"""
        reg = registry()
        snap = snapshot()
        NONDET[0] = True
        try:
            fn()
        except Exception as e:
            NONDET[0] = False
            if not allowed_exc(e):
                runner.record_witness(exc=type(e).__name__, msg=str(e)[:120], where=tag, **vals)
                return False
        NONDET[0] = False
        if [a is b for a, b in zip(reg, registry())] != [True] * 4:
            runner.record_witness(exc="registry changed", where=tag, **vals)
            return False
        after = snapshot()
        if after != snap:
            diff = [x[:3] for x in after if x not in snap][:3]
            runner.record_witness(exc="global state changed", msg=str(diff)[:150], where=tag, **vals)
            return False
        return True

    def decryptors(dec, ck, code, recipient):
        if dec == "none":
            return []
        if dec == "cust":
            return [b2.SoftwareCustKeyEncryptor(ck)]
        if dec == "code":
            return [b2.ConfigSecurityCodeEncryptor(code)]
        if dec == "ecc":
            return [b2.EccDecryptor(0, recipient), b2.EccDecryptor(2, recipient)]
        # wrong keys: every valid block decrypts to an arbitrary frame (one decryptor per kind of the damaged block)
        return [b2.SoftwareCustKeyEncryptor(sym.sym_bytes("wk", 16)), b2.ConfigSecurityCodeEncryptor(sym.sym_bytes("wc", 8))]

    def valid_file(key, ck, code, recipient):
        f = bf.Bf3File({}, [bf.Bf3Component({0xC3: b"\x02"}, sym.sym_bytes("fw", 3))])
        blocks = [b2.InitCustKeyAuthBlock(), b2.InitEccAuthBlock(0), b2.UpdateAuthBlock(code, 1)]
        enc = [b2.SoftwareCustKeyEncryptor(ck), b2.EccEncryptor(0, recipient.public_key)]
        c = stubs.Carrier()
        b2.Bec2File(f, blocks, key).write_file(c, enc)
        return c.raw

    if kind == "bec2":
        TAG = {"cust": 1, "update": 2, "ecc": 3, "unknown": 0x55}[job["block"]]
        lens, twin = job["lens"], job.get("twin")

        def h():
            stubs.reset_log()
            key, ck, code = sym.sym_bytes("key", 16), sym.sym_bytes("ck", 16), sym.sym_bytes("code", 8)
            recipient = UFPrivate.generate()
            raw = valid_file(key, ck, code, recipient)
            # header: sig, cust(2+32), ecc(2+82), update(2+32), 00 00
            body = raw[5 + 34 + 84 + 34 + 2 :]
            li = sym.sym_int("len", 0, len(lens))
            L = None
            for i, x in enumerate(lens):
                if li == i:
                    L = x
                    break
            content = sym.sym_bytes("blk", L)
            first = raw[5 : 5 + 34]
            hdr = bytes([TAG, L]) + content
            if job["dec"] == "wrong":
                pass  # the damaged block alone: under a wrong key every further block multiplies the frame-parser paths
            else:
                if job.get("tier") == "thorough":
                    pos = sym.sym_int("pos", 0, 2)  # damaged block first or after a valid customer-key block
                    hdr = (hdr + first) if pos == 0 else (first + hdr)
                else:
                    hdr = hdr + first
            dam = b"BEC2\x00" + hdr + b"\x00\x00" + body
            c2 = stubs.Carrier()
            c2.raw, c2.comments = dam, {}
            decs = decryptors(job["dec"], ck, code, recipient)
            ok = call(lambda: b2.Bec2File.read_file(c2, decs, True), dict(content=content, L=L), "Bec2File.read_file")
            if twin:
                return False
            return ok

        res = runner.run(h, job["timeout"] - 60, job["timeout"] - 60)
        res["symbolic_dims"] = max(lens) + 40
    elif kind == "bec2trunc":
        def h():
            key, ck, code = sym.sym_bytes("key", 16), sym.sym_bytes("ck", 16), sym.sym_bytes("code", 8)
            recipient = UFPrivate.generate()
            raw = valid_file(key, ck, code, recipient)
            n = sym.sym_int("cut", job["lo"], job["hi"])
            cut = None
            for i in range(job["lo"], job["hi"]):
                if n == i:
                    cut = i
                    break
            c2 = stubs.Carrier()
            c2.raw, c2.comments = raw[:cut], {}
            return call(lambda: b2.Bec2File.read_file(c2, decryptors("cust", ck, code, recipient), True), dict(cut=cut), "Bec2File.read_file")

        res = runner.run(h, job["timeout"] - 60, job["timeout"] - 60)
        res["symbolic_dims"] = 1
    elif kind == "bf3many":
        # more than 255 directory entries: the entry index no longer fits one byte
        class Const(crypto.AES128):
            def encrypt(self, d):
                return bytes(-(-len(d) // 16) * 16)

            def decrypt(self, d):
                return d

            def mac(self, d):
                return bytes(15) + bytes([len(d) % 251])

        n = job["n"]

        def h():
            crypto.register_AES128(Const)
            pays = [sym.sym_bytes("p%d_" % i, 1) for i in range(n)]
            f = bf.Bf3File({}, [bf.Bf3Component({}, p) for p in pays])
            c = stubs.Carrier()
            f.write_file(c, bytes(16))
            ok = True
            for chk in (True, False):
                ok = ok and call(lambda: bf.Bf3File.read_file(c, chk, bytes(16)), dict(entries=n, check_cmac=chk), "Bf3File.read_file")
            return ok

        res = runner.run(h, job["timeout"] - 60, job["timeout"] - 60)
        res["symbolic_dims"] = n
    elif kind in ("bf3len", "bf3enc"):
        from props import c05
        from bec2format.crypto import create_AES128

        def mac(key, iv, data):
            if len(data) == 0:
                return bytes(16)  # a forged entry may carry any MAC for an empty payload
            return create_AES128(key, iv).mac(data)

        def h():
            key = sym.sym_bytes("key", 16)
            payload = sym.sym_bytes("pay", 2)
            if kind == "bf3len":
                total = sym.sym_int("total", 0, 3)
                actual = sym.sym_int("actual", 0, 3)
                t = c05.split(total, 2)
                comps = [(payload[:t], 2, [(0xC1, b"\x00")])]
                edits = {"total@0": total, "actual@0": actual}
                vals = dict(total=total, actual=actual)
            else:
                ln = sym.sym_int("enclen", 0, 3)
                L = c05.split(ln, 2)
                encval = sym.sym_bytes("encval", L)
                comps = [(payload, 2, [(0xC2, encval)])]
                edits, vals = {}, dict(encval=encval)
            binary, _ = c05.serialise(mac, key, comps, edits)
            c = stubs.Carrier()
            c.raw, c.comments = binary, {}
            ok = True
            for chk in (True, False):
                ok = ok and call(lambda: bf.Bf3File.read_file(c, chk, key), dict(check_cmac=chk, **vals), "Bf3File.read_file")
            return ok

        res = runner.run(h, job["timeout"] - 60, job["timeout"] - 60)
        res["symbolic_dims"] = 20
    elif kind == "bf2":
        from props import c13

        shape = job["shape"]

        def h():
            ls = [c13.mk_line(bf, 0x84, 0, sym.sym_bytes("d", 2), sym.sym_bytes("r", 4))]
            lo = [c13.mk_line(bf, 0x70, 0, sym.sym_bytes("e", 2), sym.sym_bytes("q", 4))]
            pe = [c13.mk_line(bf, 0x39, 0, sym.sym_bytes("g", 2), sym.sym_bytes("s", 4))]
            objs = {
                "reboot-first": [("Bf3Update", "1"), ("REBOOT", {}), ("load", ls)],
                "double-check-fwver": [("Bf3Update", "1"), ("CHECK_FWVER", {"VERSIONDESC": "*"}), ("CHECK_FWVER", {"VERSIONDESC": "*"}), ("load", ls), ("REBOOT", {})],
                "loader-without-interface": [("Bf3Update", "1"), ("load", lo), ("REBOOT", {})],
                "select-without-filter": [("Bf3Update", "1"), ("SELECT", {}), ("load", ls), ("REBOOT", {})],
                "bad-firmware-line": [("Bf3Update", "1"), ("Firmware", "xx"), ("load", ls), ("REBOOT", {})],
                "peripheral-bad-filter": [("Bf3Update", "1"), ("SELECT", {"FILTER": "02 01 00 B6"}), ("load", pe), ("REBOOT", {})],
                "unknown-instruction": [("Bf3Update", "1"), ("FROBNICATE", {"X": "1"}), ("load", ls), ("REBOOT", {})],
                "load-only": [("load", ls)],
            }[shape]
            bf.Bf3File.parse_bf2_file = classmethod(lambda cls, f: iter(objs))
            return call(lambda: bf.Bf3File.bf2_import(io.StringIO("")), dict(shape=shape), "Bf3File.bf2_import")

        res = runner.run(h, job["timeout"] - 60, job["timeout"] - 60)
        res["symbolic_dims"] = 6
    elif kind == "pfid2":
        def h():
            n = sym.sym_int("n", 2, 5)
            L = None
            for i in (2, 3, 4):
                if n == i:
                    L = i
                    break
            vals = [sym.sym_int("b%d" % i, 0, 256) for i in range(L)]
            for v in vals:
                sym.assume(z3.Or([sym.expr_of(v) == c for c in (0, 1, 2, 0x80, 0xB6, 0x23)]))
            data = bytes(vals)
            return call(lambda: bf.pfid2_filter_to_str(data), dict(data=data), "pfid2_filter_to_str")

        res = runner.run(h, job["timeout"] - 60, job["timeout"] - 60)
        res["symbolic_dims"] = 4
    else:
        raise ValueError(kind)
    if res["verdict"] == "violated":
        w = res.get("witness") or {}
        res["signature"] = "C14:%s:%s" % (w.get("where", kind), w.get("exc", "?"))
        res["message"] = "%s: %s | %s" % (w.get("exc"), w.get("msg"), res.get("message"))
    return res


def _unhex(w):
    if isinstance(w, dict):
        if set(w) == {"hex"}:
            return bytes.fromhex(w["hex"])
        return {k: _unhex(v) for k, v in w.items()}
    return w


def replay(job):
    """real crypto, through the text layer; the witness's block content is re-created so that
    the same exception class arises (ciphertext bytes are searched where a decrypted-frame
    condition is involved)"""
    import random
    import register_crypto_plugin as plug
    from bec2format import bf3file as bf, bec2file as b2, generate_private_ecc_key
    from bec2format.error import FormatError

    if job.get("twin"):
        return dict(reproduced=True, signature="twin")
    w = _unhex(job.get("witness") or {})
    kind = job["kind"]
    want_exc = w.get("exc")
    rnd = random.Random(2)

    def run(fn, where):
        try:
            fn()
        except Exception as e:
            if not isinstance(e, (FormatError, ValueError)):
                return dict(reproduced=True, signature="C14:%s:%s" % (where, type(e).__name__), detail="%s: %s" % (type(e).__name__, e))
        return None

    if kind == "ecckey":
        raw = w.get("raw", bytes(64))
        r = run(lambda: plug.PublicEccKeyProxy.create_from_raw_fmt(raw), "ecc-key-load")
        if r:
            r["signature"] = "C14:ecc-key-load:" + r["signature"].split(":")[-1]
        return r or dict(reproduced=False)
    if kind in ("bec2", "bec2trunc"):
        key, ck, code = bytes(range(16)), bytes(range(16, 32)), b"12345678"
        recipient = generate_private_ecc_key()
        f = bf.Bf3File({}, [bf.Bf3Component({0xC3: b"\x02"}, b"abc")])
        s = io.StringIO()
        b2.Bec2File(f, [b2.InitCustKeyAuthBlock(), b2.InitEccAuthBlock(0, ), b2.UpdateAuthBlock(code, 1)], key).write_file(s, [b2.SoftwareCustKeyEncryptor(ck), b2.EccEncryptor(0, recipient.public_key)])
        raw = bytes.fromhex("".join(s.getvalue().split("\n")[1:]))
        body = raw[5 + 34 + 84 + 34 + 2 :]
        first = raw[5 : 39]
        dec = job.get("dec", "cust")
        decs = {"none": [], "cust": [b2.SoftwareCustKeyEncryptor(ck)], "code": [b2.ConfigSecurityCodeEncryptor(code)], "ecc": [b2.EccDecryptor(0, recipient), b2.EccDecryptor(2, recipient)], "wrong": [b2.SoftwareCustKeyEncryptor(bytes(16)), b2.ConfigSecurityCodeEncryptor(bytes(8)), b2.EccDecryptor(0, generate_private_ecc_key())]}[dec]
        if kind == "bec2trunc":
            cut = w.get("cut", 0)
            txt = "\n" + raw[:cut].hex().upper() + "\n"
            return run(lambda: b2.Bec2File.read_file(io.StringIO(txt), decs), "Bec2File.read_file") or dict(reproduced=False)
        TAG = {"cust": 1, "update": 2, "ecc": 3, "unknown": 0x55}[job["block"]]
        cands = []
        for L in ([w["L"]] if "L" in w else job["lens"]):
            cands.append(w.get("content", bytes(L))[:L].ljust(L, b"\0"))
            for _ in range(40):
                c = bytearray(rnd.randrange(256) for _ in range(L))
                if L > 1 and job["block"] == "ecc":
                    c[0] = rnd.choice([0, 2])
                    c[1] = 4
                cands.append(bytes(c))
        # blocks that are valid frames under the reader's key but carry a payload of any other length (the symbolic run sees
        # the decrypted frame through the uninterpreted cipher; here the real encryptor produces such frames)
        if job["block"] in ("cust", "update") and dec in ("cust", "code", "wrong"):
            encs = [b2.SoftwareCustKeyEncryptor(ck), b2.ConfigSecurityCodeEncryptor(code)] if dec != "wrong" else [b2.SoftwareCustKeyEncryptor(bytes(16)), b2.ConfigSecurityCodeEncryptor(bytes(8))]
            for e_ in encs:
                for k in list(range(0, 41)) + [100, 200, 237]:
                    try:
                        cands.append(e_.encrypt(bytes((7 * i + k) & 0xFF for i in range(k))))
                    except Exception:
                        pass
        for content in cands:
            if len(content) > 255:
                continue
            for order in (0, 1):
                hdr = bytes([TAG, len(content)]) + content
                hdr = hdr + first if order == 0 else first + hdr
                txt = "\n" + (b"BEC2\x00" + hdr + b"\x00\x00" + body).hex().upper() + "\n"
                r = run(lambda: b2.Bec2File.read_file(io.StringIO(txt), decs), "Bec2File.read_file")
                if r:
                    r["detail"] += " | block tag %02X content %s decryptors %s" % (TAG, content.hex(), dec)
                    return r
        return dict(reproduced=False, detail="no candidate reproduced an unexpected exception class")
    if kind == "bf3many":
        n = job["n"]
        f = bf.Bf3File({}, [bf.Bf3Component({}, bytes([i % 256])) for i in range(n)])
        s = io.StringIO()
        f.write_file(s, bytes(16))
        for chk in (True, False):
            s.seek(0)
            r = run(lambda: bf.Bf3File.read_file(s, chk, bytes(16)), "Bf3File.read_file")
            if r:
                r["detail"] += " | file with %d components, check_cmac=%s" % (n, chk)
                return r
        return dict(reproduced=False)
    if kind in ("bf3len", "bf3enc"):
        from props import c05
        from bec2format.crypto import create_AES128

        def mac(k, iv, data):
            return bytes(16) if len(data) == 0 else create_AES128(k, iv).mac(data)

        key = bytes(16)
        combos = [(w.get("total", 0), w.get("actual", 0))] + [(t, a) for t in range(3) for a in range(3)]
        for total, actual in combos:
            if kind == "bf3len":
                comps, edits = [(b"\x07\x08"[:total], 2, [(0xC1, b"\x00")])], {"total@0": total, "actual@0": actual}
            else:
                comps, edits = [(b"\x07\x08", 2, [(0xC2, (w.get("encval") if isinstance(w.get("encval"), bytes) else b"\x02") if (total, actual) == combos[0] else [b"", b"\x02", b"\x02\x00"][(total + actual) % 3])])], {}
            binary, _ = c05.serialise(mac, key, comps, edits)
            for chk in (True, False):
                r = run(lambda: bf.Bf3File.read_file(io.StringIO("\n" + binary.hex().upper() + "\n"), chk, key), "Bf3File.read_file")
                if r:
                    r["detail"] += " | stored length %d declared %d check_cmac %s" % (total, actual, chk)
                    return r
        return dict(reproduced=False)
    if kind == "bf2":
        def line(tagtype, adr, payload):
            fwtag = bytes([len(payload) + 2, adr >> 8, adr & 0xFF]) + payload
            return ":" + ((0).to_bytes(2, "big") + bytes([tagtype, len(fwtag)]) + fwtag).hex().upper() + "\n"

        end = ":0000FF00\n"
        T = {
            "reboot-first": "##Bf3Update: 1\n#>REBOOT\n" + line(0x84, 0, b"\x01\x02") + end,
            "double-check-fwver": "##Bf3Update: 1\n#>CHECK_FWVER VERSIONDESC=*\n#>CHECK_FWVER VERSIONDESC=*\n" + line(0x84, 0, b"\x01\x02") + end + "#>REBOOT\n",
            "loader-without-interface": "##Bf3Update: 1\n" + line(0x70, 0, b"\x01\x02") + end + "#>REBOOT\n",
            "select-without-filter": "##Bf3Update: 1\n#>SELECT\n" + line(0x84, 0, b"\x01\x02") + end + "#>REBOOT\n",
            "bad-firmware-line": "##Bf3Update: 1\n##Firmware: xx\n" + line(0x84, 0, b"\x01\x02") + end + "#>REBOOT\n",
            "peripheral-bad-filter": "##Bf3Update: 1\n#>SELECT FILTER=02 01 00 B6\n" + line(0x39, 0, b"\x01\x02") + end + "#>REBOOT\n",
            "unknown-instruction": "##Bf3Update: 1\n#>FROBNICATE X=1\n" + line(0x84, 0, b"\x01\x02") + end + "#>REBOOT\n",
            "load-only": line(0x84, 0, b"\x01\x02") + end,
        }[job["shape"]]
        r = run(lambda: bf.Bf3File.bf2_import(io.StringIO(T)), "Bf3File.bf2_import")
        if r:
            r["detail"] += " | BF2 text %r" % T
        return r or dict(reproduced=False)
    if kind == "pfid2":
        from vlib import common as _common
        from bec2format import hwcids, configid

        data = w.get("data", b"\x01\x01")
        before = _common.global_snapshot([bf, b2, hwcids, configid])
        r = run(lambda: bf.pfid2_filter_to_str(data), "pfid2_filter_to_str")
        if r:
            return r
        after = _common.global_snapshot([bf, b2, hwcids, configid])
        if before != after:
            return dict(reproduced=True, signature="C14:pfid2_filter_to_str:global state changed", detail="pfid2_filter_to_str(%s) changed %s" % (data.hex(), [x[:2] for x in after if x not in before][:3]))
        return dict(reproduced=False)
    return dict(reproduced=False)
