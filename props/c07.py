"""C07 - one fresh session key per file, wrapped identically by every auth block."""
import io
import itertools

PROPERTY = "C07"
FILES = ["bec2format/bec2file.py", "bec2format/crypto.py", "appnotes/register_crypto_plugin/__init__.py"]
META = dict(
    level="other",
    engines="A",
    files=FILES,
    technique="bounded symbolic execution of the real BEC2 header writer/reader (CrossHair/z3) with symbolic keys: every block unwrapped by an independent model decryptor, spliced headers with two symbolic keys k1 != k2, pass-through of unopened blocks, and RNG/key-generator call logs over short construction/write histories",
    level_text="Solver verdict over all session keys, wrapping keys, codes and unknown-block contents per enumerated block combination: (a) each written block unwraps (independent model) to the file's session key, which is the key the directory MACs verify under; (b) a header whose blocks wrap two different keys is rejected; (c) blocks without a matching decryptor and unknown tags are kept byte for byte on re-write; (d) for histories of <= 3 constructions/writes each key-less construction consumes exactly one RNG output and uses it unchanged, each ECC wrap consumes exactly one fresh key pair and publishes that pair's public point.",
    level_note="Freshness is reduced to the contract of the registered RNG / key generator (os.urandom and SigningKey.generate are environment). Trusted: z3, CrossHair proxies, UF abstractions of AES-CBC, CRC, SHA-256, ECDH.",
    explanation="Bounded symbolic verification with CrossHair (z3) of Bec2File.__init__, to_binary, pack_auth_blocks, unpack_auth_blocks, the three AuthBlock classes and their encryptors, with the RNG and the ECC key generator replaced by logging stubs that return fresh symbolic values.",
    functions=["Bec2File.__init__", "Bec2File.to_binary", "Bec2File.pack_auth_blocks", "Bec2File.unpack_auth_blocks", "Bec2File.read_file", "InitCustKeyAuthBlock/InitEccAuthBlock/UpdateAuthBlock/UnknownAuthBlock pack+unpack", "EccEncryptor.encrypt", "crypto.random_bytes", "crypto.generate_private_ecc_key"],
    stubs=["S-io", "S-cbc", "S-crc", "S-sha", "S-ecc (logging)", "S-rng (logging)", "text-layer bypass"],
    assumptions=["RNG outputs are independent fresh values (contract of the registered RNG)"],
    bounds=dict(quick="all 15 ordered block subsets for (a); all ordered pairs of block kinds for (b); unopened-block pass-through for each kind + one unknown tag with 3 symbolic bytes; histories of 1..3 constructions and 1..3 writes", thorough="as quick plus (c) for every decryptor subset of the 3-block orders"),
    outside=["quality of os.urandom / SigningKey.generate", "more than 3 operations per history"],
)

KINDS = ("cust", "ecc", "update")


def jobs(tier, seed):
    from props import c02

    J = []
    for o in c02.orders():
        J.append(dict(name="same-key:%s" % "+".join(o), kind="samekey", order=o, timeout=900, cost=100 * len(o)))
    for sel in range(4):
        J.append(dict(name="same-key:ecc-sel%d-other-selector-listed-first" % sel, kind="samekey", order=["ecc", "cust"], sel=sel, decoy=True, timeout=900, cost=150))
    for a, b in itertools.product(KINDS, KINDS):
        if a != b:
            J.append(dict(name="splice:%s|%s" % (a, b), kind="splice", pair=[a, b], timeout=900, cost=150))
    for k in KINDS:
        J.append(dict(name="passthrough:%s" % k, kind="passthrough", order=[k, "unknown"], timeout=900, cost=100))
    J.append(dict(name="passthrough:cust+ecc+update-open-none-but-cust", kind="passthrough", order=["ecc", "cust", "update"], open=["cust"], timeout=900, cost=200))
    if tier == "thorough":
        for o in [x for x in c02.orders() if len(x) == 3]:
            for d in c02.dec_subsets(o):
                if len(d) < 3:
                    J.append(dict(name="passthrough:%s|open=%s" % ("+".join(o), "+".join(d)), kind="passthrough", order=o, open=d, timeout=900, cost=200))
    for n in (1, 2, 3):
        J.append(dict(name="history:construct%d" % n, kind="hist_construct", n=n, timeout=600, cost=50))
        J.append(dict(name="history:write%d" % n, kind="hist_write", n=n, timeout=900, cost=150))
    J.append(dict(name="same-key:twin", kind="samekey", order=["cust"], twin=True, expect="violated", timeout=300))
    return J


def run_job(job):
    import z3
    from vlib.enginea import sym, runner, stubs

    stubs.load_repo()
    stubs.install_uf_cbc()
    stubs.install_uf_crc()
    stubs.install_uf_sha()
    UFPrivate, UFPublic = stubs.install_uf_ecc()
    stubs.install_sym_rng()
    stubs.install_text_bypass()
    stubs.install_forking_authmap()
    from bec2format import bf3file as bf, bec2file as b2
    from bec2format.error import Bec2FileFormatError

    kind = job["kind"]

    def content():
        return bf.Bf3File({}, [bf.Bf3Component({0xC3: b"\x02"}, sym.sym_bytes("fw", 3))])

    def mk(order, key, ck, code, recipient, sel=2):
        blocks, enc = [], []
        for k in order:
            if k == "cust":
                blocks.append(b2.InitCustKeyAuthBlock())
                enc.append(b2.SoftwareCustKeyEncryptor(ck))
            elif k == "ecc":
                blocks.append(b2.InitEccAuthBlock(sel))
                enc.append(b2.EccEncryptor(sel, recipient.public_key))
            elif k == "update":
                blocks.append(b2.UpdateAuthBlock(code, 5))
            else:
                blocks.append(b2.UnknownAuthBlock(0x7E, sym.sym_bytes("unk", 3)))
        return blocks, enc

    def walk(raw):
        out, pos = [], 5
        while True:
            t, ln = raw[pos], raw[pos + 1]
            if t == 0 and ln == 0:
                return out, pos + 2
            out.append((t, raw[pos + 2 : pos + 2 + ln]))
            pos += 2 + ln

    def model_unwrap(k, val, ck, code, recipient):
        """independent model decryptors"""
        if k == "cust":
            plain = stubs.model_cbc_decrypt(ck, None, val)
            return plain[len(plain) - 2 - 16 : len(plain) - 2]
        if k == "update":
            plain = stubs.model_cbc_decrypt(stubs.model_sha(code)[:16], None, val)
            return plain[len(plain) - 2 - 17 : len(plain) - 2 - 1]
        # ecc: selector, 04, X||Y, ciphertext
        pub = UFPublic(val[2:66])
        secret = recipient.compute_dh_secret(pub)
        return stubs.model_cbc_decrypt(stubs.model_sha(secret)[:16], None, val[66:82])

    if kind == "samekey":
        order, twin = job["order"], job.get("twin")

        def h():
            stubs.reset_log()
            key, ck, code = sym.sym_bytes("key", 16), sym.sym_bytes("ck", 16), sym.sym_bytes("code", 8)
            recipient = UFPrivate.generate()
            SEL = job.get("sel", 2)
            blocks, enc = mk(order, key, ck, code, recipient, sel=SEL)
            if job.get("decoy"):
                # encryptors for the other selectors come first in the list and must be ignored
                decoys = [b2.EccEncryptor(s_, UFPrivate.generate().public_key) for s_ in range(4) if s_ != SEL]
                enc = decoys + enc
            w = b2.Bec2File(content(), blocks, key)
            raw = w.to_binary(enc)
            tl, body = walk(raw)
            ok = len(tl) == len(order)
            for k, (t, val) in zip(order, tl):
                if ok:
                    ok = model_unwrap(k, val, ck, code, recipient) == key
            if ok:
                # the same key authenticates the directory: the real reader accepts the body under it
                rdr = b2.BytesReader(raw, "x")
                rdr.read(body)
                g = bf.Bf3File.from_binary(rdr, {}, True, key)
                ok = len(g.components) == 1
            if twin:
                ok = False
            if not ok:
                runner.record_witness(key=key, ck=ck, code=code)
            return ok

        res = runner.run(h, job["timeout"] - 60, job["timeout"] - 60)
        res["signature"] = "C07:blocks-wrap-different-keys"
    elif kind == "splice":
        a, b = job["pair"]

        def h():
            stubs.reset_log()
            k1, k2 = sym.sym_bytes("k1", 16), sym.sym_bytes("k2", 16)
            sym.assume(z3.Not(sym.bytes_equal_expr(k1, k2)))
            ck, code = sym.sym_bytes("ck", 16), sym.sym_bytes("code", 8)
            recipient = UFPrivate.generate()
            raws = []
            for kk, kind_ in ((k1, a), (k2, b)):
                blocks, enc = mk([kind_], kk, ck, code, recipient)
                raws.append(b2.Bec2File(content(), blocks, kk).to_binary(enc))
            (t1, v1), = walk(raws[0])[0]
            (t2, v2), = walk(raws[1])[0]
            hdr = b"BEC2\x00" + bytes([t1, len(v1)]) + v1 + bytes([t2, len(v2)]) + v2 + b"\x00\x00"
            body = raws[0][walk(raws[0])[1] :]
            dec = [b2.SoftwareCustKeyEncryptor(ck), b2.EccDecryptor(2, recipient), b2.ConfigSecurityCodeEncryptor(code)]
            rdr = b2.BytesReader(hdr + body, "x")
            rdr.read(5)
            try:
                blocks, sk = b2.Bec2File.unpack_auth_blocks(rdr, dec)
            except Bec2FileFormatError:
                return True
            runner.record_witness(k1=k1, k2=k2, ck=ck, code=code)
            return False

        res = runner.run(h, job["timeout"] - 60, job["timeout"] - 60)
        res["signature"] = "C07:spliced-header-accepted"
    elif kind == "passthrough":
        order = job["order"]
        opened = job.get("open", [order[0]] if "unknown" in order else [])
        if "unknown" in order:
            opened = [order[0]]

        def h():
            stubs.reset_log()
            key, ck, code = sym.sym_bytes("key", 16), sym.sym_bytes("ck", 16), sym.sym_bytes("code", 8)
            recipient = UFPrivate.generate()
            blocks, enc = mk(order, key, ck, code, recipient)
            carrier = stubs.Carrier()
            b2.Bec2File(content(), blocks, key).write_file(carrier, enc)
            raw1 = carrier.raw
            dec = []
            for k in opened:
                dec.append({"cust": lambda: b2.SoftwareCustKeyEncryptor(ck), "ecc": lambda: b2.EccDecryptor(2, recipient), "update": lambda: b2.ConfigSecurityCodeEncryptor(code)}[k]())
            r = b2.Bec2File.read_file(carrier, dec)
            tl1, _ = walk(raw1)
            rb = list(r.auth_blocks.values())
            ok = len(rb) == len(order) and r.session_key == key
            for k, got, (t, val) in zip(order, rb, tl1):
                if ok and k not in opened:
                    ok = isinstance(got, b2.UnknownAuthBlock) and got.tag == t and got.binary_value == val
            if ok:
                # write the read object again: unopened blocks byte for byte, same order
                raw2 = r.to_binary(dec)
                tl2, _ = walk(raw2)
                ok = len(tl2) == len(tl1)
                for k, (t1_, v1_), (t2_, v2_) in zip(order, tl1, tl2):
                    if ok and k not in opened:
                        ok = t1_ == t2_ and v1_ == v2_
                    elif ok:
                        ok = t1_ == t2_
            if not ok:
                runner.record_witness(key=key, ck=ck, code=code)
            return ok

        res = runner.run(h, job["timeout"] - 60, job["timeout"] - 60)
        res["signature"] = "C07:unopened-block-not-preserved"
    elif kind == "hist_construct":
        n = job["n"]

        def h():
            stubs.reset_log()
            files = [b2.Bec2File(content()) for _ in range(n)]
            rng = stubs.LOG["rng"]
            ok = len(rng) == n
            for i, f in enumerate(files):
                ok = ok and len(f.session_key) == 16 and z3.is_true(z3.simplify(sym.bytes_equal_expr(f.session_key, rng[i])))
            # a supplied key is used as is and draws nothing
            k = sym.sym_bytes("given", 16)
            g = b2.Bec2File(content(), (), k)
            ok = ok and len(stubs.LOG["rng"]) == n and g.session_key is k
            return bool(ok)

        res = runner.run(h, job["timeout"] - 60, job["timeout"] - 60)
        res["signature"] = "C07:session-key-not-fresh"
    elif kind == "hist_write":
        n = job["n"]

        def h():
            stubs.reset_log()
            ck, code = sym.sym_bytes("ck", 16), sym.sym_bytes("code", 8)
            recipient = UFPrivate.generate()
            f = b2.Bec2File(content())
            key0 = f.session_key
            blocks, enc = mk(["ecc", "cust", "update"], key0, ck, code, recipient)
            for b in blocks:
                f.add_auth_block(b)
            gen0 = len(stubs.LOG["keygen"])
            points = []
            ok = True
            for i in range(n):
                raw = f.to_binary(enc)
                tl, _ = walk(raw)
                ok = ok and len(stubs.LOG["keygen"]) == gen0 + i + 1 and len(stubs.LOG["rng"]) == 1 and f.session_key is key0
                eph = stubs.LOG["keygen"][-1]
                val = [v for t, v in tl if t == 3][0]
                ok = ok and val[0] == 2 and val[1] == 4 and val[2:66] == eph.public_key.raw
                # every block of every write still wraps the same key
                for k, (t, v) in zip(["ecc", "cust", "update"], sorted(tl, key=lambda x: {3: 0, 1: 1, 2: 2}[x[0]])):
                    ok = ok and model_unwrap(k, v, ck, code, recipient) == key0
                points.append(eph.ident)
            # ephemeral keys of different writes are different generator outputs
            ok = ok and len(set(id(p) for p in points)) == n and all(not z3.eq(points[i], points[j]) for i in range(n) for j in range(i + 1, n))
            if not ok:
                runner.record_witness(ck=ck, code=code)
            return bool(ok)

        res = runner.run(h, job["timeout"] - 60, job["timeout"] - 60)
        res["signature"] = "C07:ephemeral-key-reused"
    else:
        raise ValueError(kind)
    res["symbolic_dims"] = 40
    if res["verdict"] != "violated":
        res.pop("signature", None)
    return res


def _unhex(w):
    if isinstance(w, dict):
        if set(w) == {"hex"}:
            return bytes.fromhex(w["hex"])
        return {k: _unhex(v) for k, v in w.items()}
    return w


def replay(job):
    """real crypto (real AES, SHA-256, ECDH over P-256, os.urandom)"""
    import hashlib
    import random
    import register_crypto_plugin  # noqa
    from register_crypto_plugin.pyaes import AESModeOfOperationCBC
    from bec2format import bf3file as bf, bec2file as b2, generate_private_ecc_key
    from bec2format.error import Bec2FileFormatError

    if job.get("twin"):
        return dict(reproduced=True, signature="twin")
    w = _unhex(job.get("witness") or {})
    kind = job["kind"]
    rnd = random.Random(9)
    recipient = generate_private_ecc_key()

    def aes_dec(key, ct):
        m = AESModeOfOperationCBC(key, bytes(16))
        return b"".join(m.decrypt(ct[i : i + 16]) for i in range(0, len(ct), 16))

    def content():
        return bf.Bf3File({}, [bf.Bf3Component({0xC3: b"\x02"}, b"abc")])

    SEL = job.get("sel", 2)

    def mk(order, ck, code):
        blocks, enc = [], []
        if job.get("decoy"):
            enc += [b2.EccEncryptor(s_, generate_private_ecc_key().public_key) for s_ in range(4) if s_ != SEL]
        for k in order:
            if k == "cust":
                blocks.append(b2.InitCustKeyAuthBlock()); enc.append(b2.SoftwareCustKeyEncryptor(ck))
            elif k == "ecc":
                blocks.append(b2.InitEccAuthBlock(SEL)); enc.append(b2.EccEncryptor(SEL, recipient.public_key))
            elif k == "update":
                blocks.append(b2.UpdateAuthBlock(code, 5))
            else:
                blocks.append(b2.UnknownAuthBlock(0x7E, b"\x01\x02\x03"))
        return blocks, enc

    def walk(raw):
        out, pos = [], 5
        while raw[pos : pos + 2] != b"\x00\x00":
            out.append((raw[pos], raw[pos + 2 : pos + 2 + raw[pos + 1]]))
            pos += 2 + raw[pos + 1]
        return out, pos + 2

    def unwrap(k, val, ck, code):
        if k == "cust":
            p = aes_dec(ck, val); return p[-18:-2]
        if k == "update":
            p = aes_dec(hashlib.sha256(code).digest()[:16], val); return p[-19:-3]
        try:
            return b2.EccDecryptor(SEL, recipient).decrypt(val[1:])
        except Exception as e:
            return b"undecryptable by the addressed recipient: " + type(e).__name__.encode()

    for t in range(200):
        key = w.get("key", bytes(16)) if t == 0 else bytes(rnd.randrange(256) for _ in range(16))
        ck = w.get("ck", bytes(16)) if t == 0 else bytes(rnd.randrange(256) for _ in range(16))
        code = w.get("code", bytes(8)) if t == 0 else bytes(rnd.randrange(256) for _ in range(8))
        if kind == "samekey":
            blocks, enc = mk(job["order"], ck, code)
            raw = b2.Bec2File(content(), blocks, key).to_binary(enc)
            for k, (tg, val) in zip(job["order"], walk(raw)[0]):
                got = unwrap(k, val, ck, code)
                if got != key:
                    return dict(reproduced=True, signature="C07:blocks-wrap-different-keys", detail="block %s unwraps to %s, session key %s" % (k, got.hex(), key.hex()))
        elif kind == "splice":
            k1 = w.get("k1", bytes(16)) if t == 0 else bytes(rnd.randrange(256) for _ in range(16))
            k2 = w.get("k2", bytes(15) + b"\x01") if t == 0 else bytes(rnd.randrange(256) for _ in range(16))
            if k1 == k2:
                continue
            a, b = job["pair"]
            r1 = b2.Bec2File(content(), mk([a], ck, code)[0], k1).to_binary(mk([a], ck, code)[1])
            r2 = b2.Bec2File(content(), mk([b], ck, code)[0], k2).to_binary(mk([b], ck, code)[1])
            (t1, v1), = walk(r1)[0]
            (t2, v2), = walk(r2)[0]
            hdr = b"BEC2\x00" + bytes([t1, len(v1)]) + v1 + bytes([t2, len(v2)]) + v2 + b"\x00\x00"
            dec = [b2.SoftwareCustKeyEncryptor(ck), b2.EccDecryptor(2, recipient), b2.ConfigSecurityCodeEncryptor(code)]
            rdr = b2.BytesReader(hdr + r1[walk(r1)[1] :], "x"); rdr.read(5)
            try:
                b2.Bec2File.unpack_auth_blocks(rdr, dec)
                return dict(reproduced=True, signature="C07:spliced-header-accepted", detail="blocks %s(k1) + %s(k2) accepted" % (a, b))
            except Bec2FileFormatError:
                pass
        elif kind == "passthrough":
            order = job["order"]
            opened = [order[0]] if "unknown" in order else job.get("open", [])
            blocks, enc = mk(order, ck, code)
            s = io.StringIO()
            b2.Bec2File(content(), blocks, key).write_file(s, enc)
            raw1 = bytes.fromhex("".join(s.getvalue().split("\n")[1:]))
            dec = [{"cust": lambda: b2.SoftwareCustKeyEncryptor(ck), "ecc": lambda: b2.EccDecryptor(2, recipient), "update": lambda: b2.ConfigSecurityCodeEncryptor(code)}[k]() for k in opened]
            s.seek(0)
            try:
                r = b2.Bec2File.read_file(s, dec)
                raw2 = r.to_binary(dec)
            except Exception as e:
                return dict(reproduced=True, signature="C07:unopened-block-not-preserved", detail="%s: %s" % (type(e).__name__, e))
            if r.session_key != key:
                return dict(reproduced=True, signature="C07:unopened-block-not-preserved", detail="object read from the file has session key %s, file was written with %s: re-writing keeps unopened blocks (old key) next to blocks wrapping a new key" % (r.session_key.hex(), key.hex()))
            for k, x, y in zip(order, walk(raw1)[0], walk(raw2)[0]):
                if k not in opened and x != y:
                    return dict(reproduced=True, signature="C07:unopened-block-not-preserved", detail="block %s changed on re-write" % k)
            if len(walk(raw1)[0]) != len(walk(raw2)[0]):
                return dict(reproduced=True, signature="C07:unopened-block-not-preserved", detail="block count changed")
        elif kind == "hist_construct":
            ks = [b2.Bec2File(content()).session_key for _ in range(50)]
            if len(set(ks)) != 50 or any(len(k) != 16 for k in ks):
                return dict(reproduced=True, signature="C07:session-key-not-fresh", detail="repeated or malformed random session keys")
            return dict(reproduced=False, detail="50 constructions gave 50 distinct 16-byte keys")
        elif kind == "hist_write":
            f = b2.Bec2File(content())
            blocks, enc = mk(["ecc", "cust", "update"], ck, code)
            for b in blocks:
                f.add_auth_block(b)
            pts = []
            for _ in range(4):
                raw = f.to_binary(enc)
                for kk, (tg, val) in zip(["ecc", "cust", "update"], walk(raw)[0]):
                    if unwrap(kk, val, ck, code) != f.session_key:
                        return dict(reproduced=True, signature="C07:ephemeral-key-reused", detail="block %s wraps a different key on a repeated write" % kk)
                pts.append([v for tg, v in walk(raw)[0] if tg == 3][0][2:66])
            if len(set(pts)) != 4:
                return dict(reproduced=True, signature="C07:ephemeral-key-reused", detail="ephemeral public point repeated across writes")
            return dict(reproduced=False)
    return dict(reproduced=False, detail="no reproduction in 200 candidates")
