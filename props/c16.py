"""C16 - bundled AES equals FIPS-197 / SP 800-38A; the adapter is a pure zero-padded CBC."""
import itertools

PROPERTY = "C16"
FILES = ["appnotes/register_crypto_plugin/pyaes/aes.py", "appnotes/register_crypto_plugin/pyaes/blockfeeder.py", "appnotes/register_crypto_plugin/pyaes/util.py", "appnotes/register_crypto_plugin/__init__.py", "bec2format/crypto.py"]
META = dict(
    level="other",
    engines="BA",
    files=FILES,
    technique="compositional solver proof over symbolic bytes: (L1/L2) every entry of the 14 lookup tables against the GF(2^8) definitions with the tables as if-then-else trees over the symbolic 8-bit index; (L3/L4) the real AES.encrypt / AES.decrypt / AES.__init__ executed on bit-vector proxies with the S-box, inverse S-box and the constant GF multiplications as uninterpreted functions, compared with FIPS-197 Cipher / EqInvCipher / KeyExpansion; (L5) inverse-round algebra; (L6) the real mode classes over an uninterpreted block cipher against SP 800-38A for every split into <= 3 calls; (L7/L8) block feeder and the registered adapter under CrossHair",
    level_text="Solver verdict over all table indices (14 tables x 256 entries + 30 round constants), all blocks and all round-key schedules for 10 rounds (quick; 12/14 thorough), all 128-bit keys for the key schedule incl. the decryption schedule (192/256 thorough), all data/IV/counter values for the modes with data <= 40 bytes and every split into <= 3 calls, all data/key/IV bytes for the adapter with lengths 1..40: the bundled cipher equals FIPS-197, decryption inverts encryption, the modes equal SP 800-38A however the input is split, the adapter is zero-padded CBC with MAC = last block, decrypt(encrypt(d)) = d||0*, and results do not depend on earlier calls.",
    level_note="The link between the UF level (L3/L4) and the concrete tables is L1/L2 and nothing else: a changed table entry fails L1/L2, a changed index/shift/round structure fails L3/L4. Data longer than 40 bytes is covered by the chaining-state argument only. NIST FIPS-197 / SP 800-38A vectors are run concretely as a translator self-test. Trusted: z3 (BV + UF + arrays), the proxy class, the FIPS-197/SP 800-38A specifications as transcribed in this file.",
    explanation="Bounded symbolic verification with Engine B (real code objects on bit-vector proxies) and Engine A (CrossHair) for the feeder and adapter.",
    functions=["pyaes.AES.__init__", "pyaes.AES.encrypt", "pyaes.AES.decrypt", "AESModeOfOperationECB/CBC/CFB/OFB/CTR.encrypt/decrypt", "Counter.increment", "blockfeeder.Encrypter/Decrypter.feed", "_block_final_encrypt/_decrypt", "util.append_PKCS7_padding/strip_PKCS7_padding", "AES128Proxy.encrypt/decrypt/mac", "crypto.pad"],
    stubs=["aes.struct -> big-endian signed 32-bit unpack of four byte proxies", "aes._string_to_bytes/_bytes_to_string/_concat_list -> list based", "tables replaced as containers (array mode / UF mode)"],
    assumptions=[],
    bounds=dict(quick="L1, L2 (all tables), L3 encrypt+decrypt R=10, L4 128-bit key, L5, L6 all modes (ECB, CBC, CFB 1/8/16, OFB, CTR, counter carry) incl. a second object of the same class used between two calls, L8 adapter lengths {1,16,17,33}", thorough="L3 R=12,14; L4 192/256-bit; L6 CFB(1,8,16), OFB, CTR; L7 feeder splits; L8 lengths 1..40"),
    outside=["data > 40 bytes per call sequence", "more than 3 calls"],
)


def jobs(tier, seed):
    J = [dict(name="L0:nist-vectors", kind="vectors", timeout=300), dict(name="L1:sbox", kind="L1", timeout=900, cost=50), dict(name="L5:inverse-round-algebra", kind="L5", timeout=900, cost=50)]
    for t in ("T1", "T2", "T3", "T4", "T5", "T6", "T7", "T8", "U1", "U2", "U3", "U4", "rcon"):
        J.append(dict(name="L2:%s" % t, kind="L2", table=t, timeout=900, cost=30))
    rounds = [10] if tier == "quick" else [10, 12, 14]
    for R in rounds:
        J.append(dict(name="L3:encrypt:R%d" % R, kind="L3", op="encrypt", R=R, timeout=3400, cost=1000))
        J.append(dict(name="L3:decrypt:R%d" % R, kind="L3", op="decrypt", R=R, timeout=3400, cost=1000))
    for kl in ([16] if tier == "quick" else [16, 24, 32]):
        J.append(dict(name="L4:key-schedule:%d" % (8 * kl), kind="L4", keylen=kl, timeout=3400, cost=1500))
    modes = ["ecb", "cbc", "ctr-counter", "cfb1", "cfb8", "cfb16", "ofb", "ctr"]
    for m in modes:
        J.append(dict(name="L6:%s" % m, kind="L6", mode=m, timeout=3400, cost=500))
    if tier == "thorough":
        for pad in ("default", "none"):
            J.append(dict(name="L7:feeder:%s" % pad, kind="L7", padding=pad, timeout=3400, cost=400))
    for n in ([1, 16, 17, 33] if tier == "quick" else list(range(1, 41, 3)) + [16, 32]):
        J.append(dict(name="L8:adapter:n%d" % n, kind="L8", n=n, timeout=1500, cost=100))
    J.append(dict(name="L8:adapter:history", kind="L8h", timeout=1500, cost=100))
    J.append(dict(name="twin:L3-wrong-shiftrows-refuted", kind="L3", op="encrypt", R=2, wrongspec=True, expect="violated", timeout=900))
    return J


# ---------------------------------------------------------------------------
# GF(2^8) and FIPS-197 specification over z3 8-bit vectors


def xtime(z3, a):
    return z3.If(z3.Extract(7, 7, a) == 1, (a << 1) ^ z3.BitVecVal(0x1B, 8), a << 1)


def gfmul_const(z3, a, c):
    r, p = z3.BitVecVal(0, 8), a
    while c:
        if c & 1:
            r = r ^ p
        p = xtime(z3, p)
        c >>= 1
    return r


def gfmul(z3, a, b):
    r, p = z3.BitVecVal(0, 8), a
    for i in range(8):
        r = z3.If(z3.Extract(i, i, b) == 1, r ^ p, r)
        p = xtime(z3, p)
    return r


def py_gfmul(a, b):
    r = 0
    for _ in range(8):
        if b & 1:
            r ^= a
        a = ((a << 1) ^ 0x1B) & 0xFF if a & 0x80 else a << 1
        b >>= 1
    return r


def affine(z3, x):
    rot = lambda v, k: z3.RotateLeft(v, k)
    return x ^ rot(x, 1) ^ rot(x, 2) ^ rot(x, 3) ^ rot(x, 4) ^ z3.BitVecVal(0x63, 8)


class array_of:
    """constant table as a balanced if-then-else tree over the bits of an 8-bit index (pure QF_BV: bit-blasts to a
    SAT problem over the index bits, so that a wrong entry is found as fast as a correct table is confirmed)"""

    def __init__(self, z3, lst, width):
        self.z3, self.vals, self.width = z3, list(lst)[:256] + [0] * (256 - len(lst)), width

    def select(self, x):
        z3 = self.z3

        def tree(lo, n, bit):
            if n == 1:
                return z3.BitVecVal(self.vals[lo], self.width)
            h = n // 2
            return z3.If(z3.Extract(bit, bit, x) == 1, tree(lo + h, h, bit - 1), tree(lo, h, bit - 1))

        return tree(0, 256, 7)


def Select(T, x):
    return T.select(x)


class Spec:
    """FIPS-197 over a state of 16 z3 bytes (column-major: s[r + 4c]); sub/mul are callables"""

    def __init__(self, z3, S, Si, M):
        self.z3, self.S, self.Si, self.M = z3, S, Si, M

    def shift_rows(self, s, inv=False, wrong=False):
        out = [None] * 16
        for c in range(4):
            for r in range(4):
                src = (c - r) % 4 if inv else (c + r) % 4
                if wrong and r == 1:
                    src = (c + 2) % 4
                out[r + 4 * c] = s[r + 4 * src]
        return out

    def mix_columns(self, s, inv=False):
        M = self.M
        out = [None] * 16
        co = (14, 11, 13, 9) if inv else (2, 3, 1, 1)
        for c in range(4):
            col = s[4 * c : 4 * c + 4]
            for r in range(4):
                acc = None
                for k in range(4):
                    t = M(co[(k - r) % 4], col[k])
                    acc = t if acc is None else acc ^ t
                out[4 * c + r] = acc
        return out

    def add(self, s, k):
        return [a ^ b for a, b in zip(s, k)]

    def cipher(self, block, rk, R, wrong=False):
        s = self.add(block, rk[0])
        for r in range(1, R):
            s = self.add(self.mix_columns(self.shift_rows([self.S(b) for b in s], wrong=wrong)), rk[r])
        return self.add(self.shift_rows([self.S(b) for b in s], wrong=wrong), rk[R])

    def eq_inv_cipher(self, block, dk, R):
        """FIPS-197 5.3.5 Equivalent Inverse Cipher with the decryption schedule dk"""
        s = self.add(block, dk[0])
        for r in range(1, R):
            s = self.add(self.mix_columns(self.shift_rows([self.Si(b) for b in s], inv=True), inv=True), dk[r])
        return self.add(self.shift_rows([self.Si(b) for b in s], inv=True), dk[R])

    def key_expansion(self, key, R):
        """words w[i] as lists of 4 bytes"""
        z3 = self.z3
        Nk = len(key) // 4
        w = [key[4 * i : 4 * i + 4] for i in range(Nk)]
        rc = 1
        for i in range(Nk, 4 * (R + 1)):
            t = list(w[i - 1])
            if i % Nk == 0:
                t = [self.S(t[1]) ^ z3.BitVecVal(rc, 8), self.S(t[2]), self.S(t[3]), self.S(t[0])]
                rc = py_gfmul(rc, 2)
            elif Nk > 6 and i % Nk == 4:
                t = [self.S(b) for b in t]
            w.append([a ^ b for a, b in zip(w[i - Nk], t)])
        return w


# ---------------------------------------------------------------------------


def _setup():
    import z3
    from vlib import common

    common.setup_paths()
    from vlib.engineb import bv
    from register_crypto_plugin.pyaes import aes

    return z3, bv, aes


def word_bytes(z3, wproxy):
    """32-bit word proxy (possibly signed) -> 4 z3 bytes, MSB first"""
    t = wproxy.ext(40)
    return [z3.Extract(31 - 8 * i, 24 - 8 * i, t) for i in range(4)]


def byte_of(z3, p):
    return z3.Extract(7, 0, p.ext(10))


def install_uf_tables(z3, bv, aes):
    B8 = z3.BitVecSort(8)
    S = z3.Function("S", B8, B8)
    Si = z3.Function("Si", B8, B8)
    Ms = {c: z3.Function("M%d" % c, B8, B8) for c in (2, 3, 9, 11, 13, 14)}

    def M(c, x):
        return x if c == 1 else Ms[c](x)

    class Tab:
        def __init__(self, fn, width):
            self.fn, self.width = fn, width

        def __getitem__(self, idx):
            idx = bv.BV.lift(idx)
            i8 = z3.Extract(7, 0, idx.ext(10))
            t = self.fn(i8)
            return bv.BV(z3.ZeroExt(1, t), 0, (1 << self.width) - 1)

    def rot(parts, k):
        parts = parts[-k:] + parts[:-k] if k else parts
        return z3.Concat(*parts)

    def tenc(k):
        return Tab(lambda x: rot([M(2, S(x)), S(x), S(x), M(3, S(x))], k), 32)

    def tdec(k):
        return Tab(lambda x: rot([M(14, Si(x)), M(9, Si(x)), M(13, Si(x)), M(11, Si(x))], k), 32)

    def tu(k):
        return Tab(lambda x: rot([M(14, x), M(9, x), M(13, x), M(11, x)], k), 32)

    A = aes.AES
    A.S, A.Si = Tab(lambda x: S(x), 8), Tab(lambda x: Si(x), 8)
    A.T1, A.T2, A.T3, A.T4 = tenc(0), tenc(1), tenc(2), tenc(3)
    A.T5, A.T6, A.T7, A.T8 = tdec(0), tdec(1), tdec(2), tdec(3)
    A.U1, A.U2, A.U3, A.U4 = tu(0), tu(1), tu(2), tu(3)
    return S, Si, M


def run_job(job):
    kind = job["kind"]
    if kind in ("L7", "L8", "L8h"):
        return run_engine_a(job)
    z3, bv, aes = _setup()
    BV = bv.BV
    bv.STATS.update(queries=0, solver_s=0.0, paths=0)
    results = []

    def decide(name, pc, claim, wit_vars=None, timeout_ms=3000000):
        r, m = bv.check(pc, claim, timeout_ms=timeout_ms)
        wit = None
        if m is not None and wit_vars:
            wit = {k: m.eval(v, True).as_long() for k, v in wit_vars.items()}
        results.append((name, r, wit))

    A = aes.AES
    if kind == "vectors":
        import binascii

        ok = True
        msgs = []
        k = bytes(range(16))
        pt = bytes.fromhex("00112233445566778899aabbccddeeff")
        vecs = [(bytes(range(16)), "69c4e0d86a7b0430d8cdb78070b4c55a"), (bytes(range(24)), "dda97ca4864cdfe06eaf70a0ec0d7191"), (bytes(range(32)), "8ea2b7ca516745bfeafc49904b496089")]
        for key, ct in vecs:
            a = A(key)
            got = bytes(a.encrypt(list(pt))).hex()
            back = bytes(a.decrypt(list(bytes.fromhex(ct)))).hex()
            if got != ct or back != pt.hex():
                ok = False
                msgs.append("FIPS-197 C.%d" % len(key))
        # SP 800-38A F.2.1 CBC-AES128
        key = bytes.fromhex("2b7e151628aed2a6abf7158809cf4f3c")
        iv = bytes(range(16))
        m = aes.AESModeOfOperationCBC(key, iv)
        c1 = m.encrypt(bytes.fromhex("6bc1bee22e409f96e93d7e117393172a")).hex()
        if c1 != "7649abac8119b246cee98e9b12e9197d":
            ok = False
            msgs.append("SP800-38A F.2.1")
        m = aes.AESModeOfOperationCTR(key, aes.Counter(int("f0f1f2f3f4f5f6f7f8f9fafbfcfdfeff", 16)))
        if m.encrypt(bytes.fromhex("6bc1bee22e409f96e93d7e117393172a")).hex() != "874d6191b620e3261bef6864990db6ce":
            ok = False
            msgs.append("SP800-38A F.5.1")
        return dict(verdict="held" if ok else "violated", state="CONCRETE", queries=1, solver_s=0.0, symbolic_dims=0, message="NIST vectors (translator self-test): %s" % (msgs or "all match"), signature="C16:nist-vectors", witness={"failed": msgs})

    if kind == "L1":
        x = z3.BitVec("x", 8)
        Sa, Sia = array_of(z3, A.S, 8), array_of(z3, A.Si, 8)
        sx = Select(Sa, x)
        # inverse of the affine map: b = rotl(s,1)^rotl(s,3)^rotl(s,6)^0x05
        inv = z3.RotateLeft(sx, 1) ^ z3.RotateLeft(sx, 3) ^ z3.RotateLeft(sx, 6) ^ z3.BitVecVal(0x05, 8)
        decide("S = affine(inv): x*inv(x) = 1", [x != 0], gfmul(z3, x, inv) == 1, dict(x=x))
        decide("S[0] = affine(0)", [x == 0], z3.And(inv == 0, sx == 0x63), dict(x=x))
        decide("affine(inv) = S", [], affine(z3, inv) == sx, dict(x=x))
        decide("Si[S[x]] = x", [], Select(Sia, sx) == x, dict(x=x))
        decide("S[Si[x]] = x", [], Select(Sa, Select(Sia, x)) == x, dict(x=x))
        decide("table lengths", [], z3.BoolVal(len(A.S) == 256 and len(A.Si) == 256 and all(0 <= v < 256 for v in list(A.S) + list(A.Si))))
    elif kind == "L2":
        t = job["table"]
        x = z3.BitVec("x", 8)
        Sa, Sia = array_of(z3, A.S, 8), array_of(z3, A.Si, 8)
        if t == "rcon":
            ok = len(A.rcon) >= 10
            v = 1
            for i in range(len(A.rcon)):
                ok = ok and A.rcon[i] == v
                v = py_gfmul(v, 2)
            # the same through the solver for a symbolic index over the array
            i = z3.BitVec("i", 8)
            R = array_of(z3, A.rcon, 8)
            decide("rcon[i+1] = xtime(rcon[i])", [z3.ULT(i, len(A.rcon) - 1)], Select(R, i + 1) == xtime(z3, Select(R, i)), dict(i=i))
            decide("rcon[0] = 1", [], z3.BoolVal(A.rcon[0] == 1 and ok))
        else:
            tab = getattr(A, t)
            T = array_of(z3, tab, 32)
            n = int(t[1]) - 1
            if t[0] == "T" and n < 4:
                s = Select(Sa, x)
                parts = [gfmul_const(z3, s, 2), s, s, gfmul_const(z3, s, 3)]
                k = n
            elif t[0] == "T":
                s = Select(Sia, x)
                parts = [gfmul_const(z3, s, 14), gfmul_const(z3, s, 9), gfmul_const(z3, s, 13), gfmul_const(z3, s, 11)]
                k = n - 4
            else:
                parts = [gfmul_const(z3, x, 14), gfmul_const(z3, x, 9), gfmul_const(z3, x, 13), gfmul_const(z3, x, 11)]
                k = n
            parts = parts[-k:] + parts[:-k] if k else parts
            decide("%s[x]" % t, [], Select(T, x) == z3.Concat(*parts), dict(x=x))
            decide("%s length" % t, [], z3.BoolVal(len(tab) == 256))
    elif kind == "L5":
        sp = Spec(z3, None, None, lambda c, v: gfmul_const(z3, v, c))
        # InvMixColumns o MixColumns = id, decomposed (a monolithic query over a symbolic column is an
        # XOR-heavy SAT instance that did not finish in 15 min):
        #  (i)   multiplication by each constant is linear:  c*(a^b) = c*a ^ c*b
        #  (ii)  constants compose:                            c*(d*x) = (c*d)*x
        #  (iii) the coefficient matrices multiply to the identity (concrete GF(2^8) arithmetic)
        x, y = z3.BitVec("x", 8), z3.BitVec("y", 8)
        for c in (2, 3, 9, 11, 13, 14):
            decide("linear %d" % c, [], gfmul_const(z3, x ^ y, c) == gfmul_const(z3, x, c) ^ gfmul_const(z3, y, c), dict(x=x, y=y))
        for c in (9, 11, 13, 14):
            for d in (2, 3):
                decide("compose %d*%d" % (c, d), [], gfmul_const(z3, gfmul_const(z3, x, d), c) == gfmul_const(z3, x, py_gfmul(c, d)), dict(x=x))
        Mx = [[(2, 3, 1, 1)[(k - r) % 4] for k in range(4)] for r in range(4)]
        Ix = [[(14, 11, 13, 9)[(k - r) % 4] for k in range(4)] for r in range(4)]
        prod_ok = True
        for r in range(4):
            for cc in range(4):
                acc = 0
                for k in range(4):
                    acc ^= py_gfmul(Ix[r][k], Mx[k][cc])
                prod_ok = prod_ok and acc == (1 if r == cc else 0)
        decide("coefficient matrices multiply to identity", [], z3.BoolVal(prod_ok))
        # the specification's mix_columns uses exactly these matrices (checked on unit vectors through the solver-free evaluation)
        col = [z3.BitVec("c%d" % i, 8) for i in range(4)]
        st = col + [z3.BitVecVal(0, 8)] * 12
        one = sp.mix_columns([z3.BitVecVal(1, 8)] + [z3.BitVecVal(0, 8)] * 15)
        decide("MixColumns(e0) = first matrix column", [], z3.And([one[i] == Mx[i][0] for i in range(4)]))
        s16 = [z3.BitVec("s%d" % i, 8) for i in range(16)]
        sr = sp.shift_rows(sp.shift_rows(s16), inv=True)
        decide("InvShiftRows(ShiftRows(s)) = s", [], z3.And([sr[i] == s16[i] for i in range(16)]))
        # InvMixColumns is linear: InvMixColumns(a ^ k) = InvMixColumns(a) ^ InvMixColumns(k) (justifies the decryption schedule)
        a = [z3.BitVec("a%d" % i, 8) for i in range(4)]
        k = [z3.BitVec("k%d" % i, 8) for i in range(4)]
        pad12 = [z3.BitVecVal(0, 8)] * 12
        l = sp.mix_columns([x ^ y for x, y in zip(a, k)] + pad12, inv=True)
        r1, r2 = sp.mix_columns(a + pad12, inv=True), sp.mix_columns(k + pad12, inv=True)
        decide("InvMixColumns linear", [], z3.And([l[i] == r1[i] ^ r2[i] for i in range(4)]))
    elif kind == "L3":
        R, op = job["R"], job["op"]
        S, Si, M = install_uf_tables(z3, bv, aes)
        sp = Spec(z3, S, Si, M)

        def fn():
            a = A.__new__(A)
            ks = [[BV.var("k%d_%d" % (r, i), -(1 << 31), (1 << 31) - 1) for i in range(4)] for r in range(R + 1)]
            blk = [BV.var("b%d" % i, 0, 255) for i in range(16)]
            if op == "encrypt":
                a._Ke = ks
                return ks, blk, a.encrypt(blk)
            a._Kd = ks
            return ks, blk, a.decrypt(blk)

        for pc, (ks, blk, out) in bv.Explorer().explore(fn):
            rk = [[b for w in r for b in word_bytes(z3, w)] for r in ks]
            bl = [byte_of(z3, b) for b in blk]
            want = sp.cipher(bl, rk, R, wrong=job.get("wrongspec", False)) if op == "encrypt" else sp.eq_inv_cipher(bl, rk, R)
            claim = z3.And([byte_of(z3, BV.lift(o)) == w for o, w in zip(out, want)] + [z3.BoolVal(len(out) == 16)])
            decide("AES.%s R=%d" % (op, R), pc, claim)
    elif kind == "L4":
        kl = job["keylen"]
        R = {16: 10, 24: 12, 32: 14}[kl]
        S, Si, M = install_uf_tables(z3, bv, aes)
        sp = Spec(z3, S, Si, M)

        class StructShim:
            @staticmethod
            def unpack(fmt, b4):
                assert fmt == ">i" and len(b4) == 4
                v = b4[0] * (1 << 24) + b4[1] * (1 << 16) + b4[2] * (1 << 8) + b4[3]  # 0 .. 2^32-1
                # two's complement reinterpretation as signed 32-bit
                t = v.ext(34)
                sgn = z3.SignExt(2, z3.Extract(31, 0, t))
                return (bv.BV(z3.Extract(32, 0, sgn), -(1 << 31), (1 << 31) - 1),)

        aes.struct = StructShim

        def fn():
            key = [BV.var("key%d" % i, 0, 255) for i in range(kl)]
            a = A(key)
            return key, a._Ke, a._Kd

        for pc, (key, Ke, Kd) in bv.Explorer().explore(fn):
            kb = [byte_of(z3, k) for k in key]
            w = sp.key_expansion(kb, R)
            conds = []
            for r in range(R + 1):
                for i in range(4):
                    got = word_bytes(z3, BV.lift(Ke[r][i]))
                    conds += [g == e for g, e in zip(got, w[4 * r + i])]
            decide("_Ke = KeyExpansion(%d-bit)" % (8 * kl), pc, z3.And(conds))
            dconds = []
            for r in range(R + 1):
                src = [b for i in range(4) for b in w[4 * (R - r) + i]]
                if 0 < r < R:
                    src = sp.mix_columns(src, inv=True)
                for i in range(4):
                    got = word_bytes(z3, BV.lift(Kd[r][i]))
                    dconds += [g == e for g, e in zip(got, src[4 * i : 4 * i + 4])]
            decide("_Kd = decryption schedule(%d-bit)" % (8 * kl), pc, z3.And(dconds))
    elif kind == "L6":
        return run_modes(job, z3, bv, aes, decide, results)
    else:
        raise ValueError(kind)
    return _summ(bv, results)


def _summ(bv, results):
    bad = [r for r in results if r[1] == "sat"]
    unk = [r for r in results if r[1] not in ("sat", "unsat")]
    res = dict(queries=bv.STATS["queries"], solver_s=round(bv.STATS["solver_s"], 2), paths=bv.STATS["paths"], symbolic_dims=16, message=str([(n, r) for n, r, _ in results])[:900])
    if unk:
        res.update(verdict="inconclusive", state="UNKNOWN")
    elif bad:
        res.update(verdict="violated", state="SAT", witness=dict(bad[0][2] or {}, query=bad[0][0]), signature="C16:" + bad[0][0].split(" ")[0].split("[")[0])
    elif not results:
        res.update(verdict="inconclusive", state="NO_QUERIES")
    else:
        res.update(verdict="held", state="UNSAT")
    return res


def run_modes(job, z3, bv, aes, decide, results):
    """real mode classes over an uninterpreted block cipher vs SP 800-38A, every split into <= 3 calls"""
    BV = bv.BV
    mode = job["mode"]
    B128 = z3.BitVecSort(128)
    E, D = z3.Function("E", B128, B128), z3.Function("D", B128, B128)
    apps = []

    def pack(bl):
        return z3.Concat(*[byte_of(z3, BV.lift(b)) for b in bl])

    def unpack(t):
        return [bv.BV(z3.ZeroExt(2, z3.Extract(127 - 8 * i, 120 - 8 * i, t)), 0, 255) for i in range(16)]

    class UFAES:
        def encrypt(self, block):
            assert len(block) == 16
            x = pack(block)
            apps.append(("E", x))
            return unpack(E(x))

        def decrypt(self, block):
            assert len(block) == 16
            x = pack(block)
            apps.append(("D", x))
            return unpack(D(x))

    def inverse_axioms():
        ax = []
        for kind_, x in apps:
            ax.append(D(E(x)) == x if kind_ == "E" else E(D(x)) == x)
        return ax

    aes._string_to_bytes = lambda t: list(t)
    aes._bytes_to_string = lambda b: list(b)
    aes._concat_list = lambda a, b: list(a) + list(b)

    def mk(cls, *args, **kw):
        m = cls.__new__(cls)
        return m

    def spec_blocks(data_bytes, n):
        return [data_bytes[i : i + n] for i in range(0, len(data_bytes), n)]

    def xor(a, b):
        return [x ^ y for x, y in zip(a, b)]

    def t2b(t, n=16):
        return [z3.Extract(127 - 8 * i, 120 - 8 * i, t) for i in range(n)]

    def b2t(bs):
        return z3.Concat(*bs)

    def splits(total, unit):
        """all ways to cut `total` (multiple of unit) into <= 3 non-empty calls at unit boundaries"""
        units = total // unit
        out = [[total]]
        for a in range(1, units):
            out.append([a * unit, total - a * unit])
            for b in range(a + 1, units):
                out.append([a * unit, (b - a) * unit, total - b * unit])
        return out

    if mode == "ctr-counter":
        # Counter.increment: 128-bit big-endian +1 with wrap-around, symbolic initial value
        def fn():
            c = aes.Counter.__new__(aes.Counter)
            c._counter = [BV.var("c%d" % i, 0, 255) for i in range(16)]
            before = list(c._counter)
            c.increment()
            return before, c._counter

        for pc, (before, after) in bv.Explorer().explore(fn):
            b = z3.Concat(*[byte_of(z3, BV.lift(x)) for x in before])
            a_ = z3.Concat(*[byte_of(z3, BV.lift(x)) for x in after])
            decide("Counter.increment", pc, z3.And(a_ == b + 1, z3.BoolVal(len(after) == 16)), {"c%d" % i: BV.lift(x).t for i, x in enumerate(before)})
        # Counter(initial_value) encodes the value big-endian
        c = aes.Counter(0x0102030405060708090A0B0C0D0E0F10)
        decide("Counter.__init__", [], z3.BoolVal(list(c.value) == list(range(1, 17))))
        return _summ(bv, results)

    from vlib import common as _common

    CLS = [aes.AESModeOfOperationECB, aes.AESModeOfOperationCBC, aes.AESModeOfOperationCFB, aes.AESModeOfOperationOFB, aes.AESModeOfOperationCTR, aes.Counter, aes.AESBlockModeOfOperation]
    snap0 = _common.global_snapshot([], classes=CLS)
    total = 32 if mode in ("ecb", "cbc", "cfb16") else (5 if mode in ("cfb1",) else (16 if mode == "cfb8" else 35))
    unit = {"ecb": 16, "cbc": 16, "cfb16": 16, "cfb8": 8, "cfb1": 1, "ofb": 1, "ctr": 1}[mode]
    for direction in ("encrypt", "decrypt"):
        if unit == 1:
            # byte-granular modes: cuts at the block boundaries and next to them
            cand = [[total]] + [[c, total - c] for c in (1, 15, 16, 17, 32, total - 1) if 0 < c < total] + [[a_, b_, total - a_ - b_] for a_, b_ in ((1, 15), (16, 16), (15, 2), (17, 1)) if a_ + b_ < total]
        else:
            cand = splits(total, unit)
        for cut in cand:
            del apps[:]

            KEY = bytes(range(16))

            def make(iv):
                """the real constructors (concrete key), then the block cipher is swapped for the UF"""
                if mode == "ecb":
                    m = aes.AESModeOfOperationECB(KEY)
                elif mode == "cbc":
                    m = aes.AESModeOfOperationCBC(KEY, list(iv))
                elif mode.startswith("cfb"):
                    m = aes.AESModeOfOperationCFB(KEY, list(iv), segment_size=unit)
                elif mode == "ofb":
                    m = aes.AESModeOfOperationOFB(KEY, list(iv))
                else:
                    val = BV.const(0)
                    for x in iv:
                        val = val * 256 + x
                    m = aes.AESModeOfOperationCTR(KEY, counter=aes.Counter(initial_value=val))
                m._aes = UFAES()
                return m

            def feed(m, chunk):
                if mode in ("ecb", "cbc"):
                    o = []
                    for q in range(0, len(chunk), 16):
                        o += list(getattr(m, direction)(chunk[q : q + 16]))
                    return o
                return list(getattr(m, direction)(chunk))

            def fn():
                data = [BV.var("d%d" % i, 0, 255) for i in range(total)]
                iv = [BV.var("iv%d" % i, 0, 255) for i in range(16)]
                if mode == "ctr":
                    # the carry chain of Counter.increment is the subject of job L6:ctr-counter (all 16 carry
                    # lengths); here the counter does not carry, which keeps the mode query on one path
                    bv.CURRENT.assume((iv[15] <= 0xF0).e)
                m = make(iv)
                out, pos = [], 0
                if len(cut) == 2:
                    # a second object of the same class is used between the two calls: results must not
                    # depend on calls on another object (no state shared through the class)
                    other = make([BV.var("jv%d" % i, 0, 255) for i in range(16)])
                    out += feed(m, data[: cut[0]])
                    feed(other, [BV.var("e%d" % i, 0, 255) for i in range(16 if unit == 16 else unit * 3)])
                    out += feed(m, data[cut[0] :])
                else:
                    for n in cut:
                        out += feed(m, data[pos : pos + n])
                        pos += n
                return data, iv, out

            for pc, (data, iv, out) in bv.Explorer().explore(fn):
                d = [byte_of(z3, x) for x in data]
                ivb = [byte_of(z3, x) for x in iv]
                want = []
                if mode == "ecb":
                    for blk in spec_blocks(d, 16):
                        want += t2b((E if direction == "encrypt" else D)(b2t(blk)))
                elif mode == "cbc":
                    prev = ivb
                    for blk in spec_blocks(d, 16):
                        if direction == "encrypt":
                            c = t2b(E(b2t(xor(blk, prev))))
                            want += c
                            prev = c
                        else:
                            want += xor(t2b(D(b2t(blk))), prev)
                            prev = blk
                elif mode.startswith("cfb"):
                    sr = ivb
                    for seg in spec_blocks(d, unit):
                        o = t2b(E(b2t(sr)))[: len(seg)]
                        res_ = xor(seg, o)
                        cseg = res_ if direction == "encrypt" else seg
                        want += res_
                        sr = sr[len(cseg) :] + cseg
                elif mode == "ofb":
                    o = ivb
                    ks = []
                    while len(ks) < total:
                        o = t2b(E(b2t(o)))
                        ks += o
                    want = xor(d, ks[:total])
                else:
                    ctr = b2t(ivb)
                    ks = []
                    while len(ks) < total:
                        ks += t2b(E(ctr))
                        ctr = ctr + 1
                    want = xor(d, ks[:total])
                claim = z3.And([z3.BoolVal(len(out) == len(want))] + [byte_of(z3, BV.lift(o)) == w_ for o, w_ in zip(out, want)])
                decide("%s.%s split %s" % (mode, direction, cut), list(pc) + inverse_axioms(), claim)
    snap1 = _common.global_snapshot([], classes=CLS)
    decide("class-level state unchanged", [], z3.BoolVal(snap0 == snap1))
    return _summ(bv, results)


# ---------------------------------------------------------------------------
# Engine A: feeder and adapter


def run_engine_a(job):
    from vlib.enginea import sym, runner, stubs

    stubs.load_repo()
    UFCBC = stubs.install_uf_cbc()
    import register_crypto_plugin as plug
    from register_crypto_plugin.pyaes import blockfeeder
    from bec2format import crypto

    kind = job["kind"]
    if kind == "L8":
        n = job["n"]

        def h():
            key, iv, d = sym.sym_bytes("key", 16), sym.sym_bytes("iv", 16), sym.sym_bytes("d", n)
            padded = d + bytes(-n % 16)
            ok = True
            for use_iv in (iv, None):
                c = crypto.create_AES128(key, use_iv)
                ct = c.encrypt(d)
                want = stubs.model_cbc_encrypt(key, use_iv, padded)
                ok = ok and ct == want and c.mac(d) == want[-16:] and crypto.create_AES128(key, use_iv).decrypt(ct) == padded
                ok = ok and crypto.pad(d) == padded
            if not ok:
                runner.record_witness(key=key, iv=iv, d=d)
            return ok

        res = runner.run(h, job["timeout"] - 60, job["timeout"] - 60)
        res["symbolic_dims"] = 32 + n
        sig = "C16:adapter"
    elif kind == "L8h":
        def h():
            key, iv = sym.sym_bytes("key", 16), sym.sym_bytes("iv", 16)
            d1, d2 = sym.sym_bytes("a", 17), sym.sym_bytes("b", 5)
            shared = crypto.create_AES128(key, iv)
            # fresh-chain results
            f1 = stubs.model_cbc_encrypt(key, iv, d1 + bytes(15))
            f2 = stubs.model_cbc_encrypt(key, iv, d2 + bytes(11))
            ok = True
            for order in itertools.permutations([0, 1, 2]):
                res = {}
                other = crypto.create_AES128(key, iv)
                for step in order:
                    if step == 0:
                        res[0] = shared.encrypt(d1)
                    elif step == 1:
                        res[1] = shared.mac(d2)
                    else:
                        res[2] = other.decrypt(f1)
                ok = ok and res[0] == f1 and res[1] == f2[-16:] and res[2] == d1 + bytes(15)
            if not ok:
                runner.record_witness(key=key, iv=iv, a=d1, b=d2)
            return ok

        res = runner.run(h, job["timeout"] - 60, job["timeout"] - 60)
        res["symbolic_dims"] = 54
        sig = "C16:adapter-history"
    else:
        padding = job["padding"]

        def h():
            key = sym.sym_bytes("key", 16)
            total = 33 if padding == "default" else 32
            d = sym.sym_bytes("d", total)
            k = sym.sym_int("split", 0, 8)
            cuts = [[total], [1, total - 1], [15, total - 15], [16, total - 16], [17, total - 17], [16, 16, total - 32], [1, 16, total - 17], [total - 1, 1]]
            cut = None
            for i, c in enumerate(cuts):
                if k == i:
                    cut = c
                    break
            enc = blockfeeder.Encrypter(UFCBC(key), padding=padding)
            out, pos = b"", 0
            for n_ in cut:
                out += enc.feed(d[pos : pos + n_])
                pos += n_
            out += enc.feed()
            one = blockfeeder.Encrypter(UFCBC(key), padding=padding)
            ref = one.feed(d) + one.feed()
            padded = d + (bytes([16 - total % 16]) * (16 - total % 16) if padding == "default" else b"")
            ok = out == ref and out == stubs.model_cbc_encrypt(key, None, padded)
            dec = blockfeeder.Decrypter(UFCBC(key), padding=padding)
            back, pos = b"", 0
            for n_ in cut:
                back += dec.feed(out[pos : pos + n_])
                pos += n_
            back += dec.feed(out[pos:]) if pos < len(out) else b""
            back += dec.feed()
            ok = ok and back == d
            if not ok:
                runner.record_witness(key=key, d=d, cut=cut)
            return ok

        res = runner.run(h, job["timeout"] - 60, job["timeout"] - 60)
        res["symbolic_dims"] = 49
        sig = "C16:feeder"
    if res["verdict"] == "violated":
        res["signature"] = sig
    return res


def replay(job):
    """concrete values through the real classes against an independent plain-Python AES (textbook, from the S-box definition)"""
    from vlib import common

    common.setup_paths()
    import register_crypto_plugin as plug
    from register_crypto_plugin.pyaes import aes

    if job.get("wrongspec"):
        return dict(reproduced=True, signature="twin")
    kind = job["kind"]
    w = job.get("witness") or {}
    A = aes.AES

    def inv8(x):
        if x == 0:
            return 0
        r = 1
        for _ in range(254):
            r = py_gfmul(r, x)
        return r

    def sbox(x):
        b = inv8(x)
        r = b
        for k in (1, 2, 3, 4):
            r ^= ((b << k) | (b >> (8 - k))) & 0xFF
        return r ^ 0x63

    SB = [sbox(x) for x in range(256)]

    def ref_encrypt(key, block):
        Nk = len(key) // 4
        R = Nk + 6
        wds = [list(key[4 * i : 4 * i + 4]) for i in range(Nk)]
        rc = 1
        for i in range(Nk, 4 * (R + 1)):
            t = list(wds[i - 1])
            if i % Nk == 0:
                t = [SB[t[1]] ^ rc, SB[t[2]], SB[t[3]], SB[t[0]]]
                rc = py_gfmul(rc, 2)
            elif Nk > 6 and i % Nk == 4:
                t = [SB[b] for b in t]
            wds.append([a ^ b for a, b in zip(wds[i - Nk], t)])
        rk = [[b for wd in wds[4 * r : 4 * r + 4] for b in wd] for r in range(R + 1)]
        s = [a ^ b for a, b in zip(block, rk[0])]
        for r in range(1, R + 1):
            s = [SB[b] for b in s]
            s = [s[(i % 4) + 4 * (((i // 4) + (i % 4)) % 4)] for i in range(16)]
            if r < R:
                o = []
                for c in range(4):
                    col = s[4 * c : 4 * c + 4]
                    for rr in range(4):
                        o.append(py_gfmul(col[rr], 2) ^ py_gfmul(col[(rr + 1) % 4], 3) ^ col[(rr + 2) % 4] ^ col[(rr + 3) % 4])
                s = o
            s = [a ^ b for a, b in zip(s, rk[r])]
        return s

    import random

    rnd = random.Random(4)
    if kind in ("L1", "L2", "L3", "L4", "vectors", "L5"):
        # any table / round / key-schedule defect shows up as a wrong ciphertext or a failed inversion
        for t in range(400):
            kl = rnd.choice([16, 24, 32])
            key = bytes(rnd.randrange(256) for _ in range(kl))
            blk = [rnd.randrange(256) for _ in range(16)]
            if "x" in w and t < 256:
                blk[0] = t  # sweep a byte so that the faulty table entry is hit
            try:
                a = A(key)
                ct = a.encrypt(list(blk))
                back = a.decrypt(list(ct))
            except Exception as e:
                return dict(reproduced=True, signature="C16:" + kind, detail="%s: %s" % (type(e).__name__, e))
            if list(ct) != ref_encrypt(key, blk):
                return dict(reproduced=True, signature="C16:" + kind, detail="AES(%s).encrypt(%s) = %s, FIPS-197 reference %s" % (key.hex(), bytes(blk).hex(), bytes(ct).hex(), bytes(ref_encrypt(key, blk)).hex()))
            if list(back) != blk:
                return dict(reproduced=True, signature="C16:" + kind, detail="decrypt(encrypt(b)) != b for key %s block %s" % (key.hex(), bytes(blk).hex()))
        # table entries directly
        for name in ("T1", "T2", "T3", "T4"):
            k = int(name[1]) - 1
            for x in range(256):
                s = SB[x]
                parts = [py_gfmul(s, 2), s, s, py_gfmul(s, 3)]
                parts = parts[-k:] + parts[:-k] if k else parts
                if getattr(A, name)[x] != int.from_bytes(bytes(parts), "big"):
                    return dict(reproduced=True, signature="C16:L2", detail="%s[%d] = %08x" % (name, x, getattr(A, name)[x]))
        return dict(reproduced=False, detail="400 random key/block pairs agree with the reference")
    if kind == "L6":
        mode = job["mode"]
        key = bytes(range(16))
        if mode == "ctr-counter":
            wv = None
            if "c0" in w:
                wv = int.from_bytes(bytes(w["c%d" % i] & 0xFF for i in range(16)), "big")
            for v in ([wv] if wv is not None else []) + [0, 255, 256 ** 2 - 1, 2 ** 64 - 1, 2 ** 128 - 1, 12345678901234567890]:
                c = aes.Counter(v)
                c.increment()
                if list(c.value) != list(((v + 1) % 2 ** 128).to_bytes(16, "big")):
                    return dict(reproduced=True, signature="C16:Counter.increment", detail="Counter(%d).increment() -> %s" % (v, bytes(c.value).hex()))
            return dict(reproduced=False)
        data = bytes(rnd.randrange(256) for _ in range(35))
        iv = bytes(range(16, 32))

        def E(b):
            return bytes(ref_encrypt(key, list(b)))

        def make():
            return {"ecb": lambda: aes.AESModeOfOperationECB(key), "cbc": lambda: aes.AESModeOfOperationCBC(key, iv), "ofb": lambda: aes.AESModeOfOperationOFB(key, iv), "ctr": lambda: aes.AESModeOfOperationCTR(key, aes.Counter(int.from_bytes(iv, "big"))), "cfb1": lambda: aes.AESModeOfOperationCFB(key, iv, 1), "cfb8": lambda: aes.AESModeOfOperationCFB(key, iv, 8), "cfb16": lambda: aes.AESModeOfOperationCFB(key, iv, 16)}[mode]()

        n = 32 if mode in ("ecb", "cbc", "cfb16") else 16 if mode == "cfb8" else 35
        d = data[:n]
        if mode in ("ecb", "cbc"):
            m = make()
            got = b"".join(bytes(m.encrypt(d[i : i + 16])) for i in range(0, n, 16))
            prev, want = iv, b""
            for i in range(0, n, 16):
                blk = d[i : i + 16]
                c = E(blk) if mode == "ecb" else E(bytes(a ^ b for a, b in zip(blk, prev)))
                want += c
                prev = c
            if got == want:
                # decrypt direction, block by block, must invert
                m3 = make()
                back = b"".join(bytes(m3.decrypt(want[i : i + 16])) for i in range(0, n, 16))
                if back != d:
                    return dict(reproduced=True, signature="C16:" + mode, detail="mode %s: decrypt(encrypt(d)) = %s for d = %s" % (mode, back.hex(), d.hex()))
        else:
            # an earlier object of the same class has been used in this process (state must not be shared)
            unit = {"cfb1": 1, "cfb8": 8, "cfb16": 16}.get(mode, 1)
            pre = make()
            pre.encrypt(data[:20] if unit == 1 else data[: 2 * unit])
            whole = bytes(make().encrypt(d))
            m2 = make()
            cutp = unit * max(1, (n // unit) // 2)
            got = bytes(m2.encrypt(d[:cutp])) + bytes(m2.encrypt(d[cutp:]))
            want = whole
            if mode.startswith("cfb"):
                sr, want = iv, b""
                for i in range(0, n, unit):
                    seg = d[i : i + unit]
                    cs = bytes(a ^ b for a, b in zip(seg, E(sr)[: len(seg)]))
                    want += cs
                    sr = sr[len(cs) :] + cs
            if mode in ("ofb", "ctr"):
                ks, o, ctr = b"", iv, int.from_bytes(iv, "big")
                while len(ks) < n:
                    if mode == "ofb":
                        o = E(o)
                        ks += o
                    else:
                        ks += E(ctr.to_bytes(16, "big"))
                        ctr = (ctr + 1) % 2 ** 128
                want = bytes(a ^ b for a, b in zip(d, ks))
        return dict(reproduced=got != want, signature="C16:" + mode, detail="mode %s: got %s want %s" % (mode, got.hex(), want.hex()))
    if kind in ("L8", "L8h", "L7"):
        from bec2format import crypto

        def unhex(x):
            return bytes.fromhex(x["hex"]) if isinstance(x, dict) else x

        key, iv = unhex(w.get("key", {"hex": "00" * 16})), unhex(w.get("iv", {"hex": "00" * 16}))
        for t in range(50):
            d = unhex(w.get("d", w.get("a", {"hex": "01"}))) if t == 0 else bytes(rnd.randrange(256) for _ in range(job.get("n", 17)))
            padded = d + bytes(-len(d) % 16)
            prev, want = iv, b""
            for i in range(0, len(padded), 16):
                c = bytes(ref_encrypt(key, [a ^ b for a, b in zip(padded[i : i + 16], prev)]))
                want += c
                prev = c
            c1 = crypto.create_AES128(key, iv)
            ct = c1.encrypt(d)
            if ct != want or c1.mac(d) != want[-16:] or c1.decrypt(ct) != padded or c1.encrypt(d) != want:
                return dict(reproduced=True, signature="C16:adapter", detail="adapter differs from zero-padded CBC for data %s" % d.hex())
        return dict(reproduced=False)
    return dict(reproduced=False)
