"""C04 - damaged or truncated files are never silently accepted as different content."""
import io

PROPERTY = "C04"
FILES = ["bec2format/bf3file.py", "bec2format/bytes_reader.py", "bec2format/bec2file.py", "appnotes/register_crypto_plugin/__init__.py"]
META = dict(
    level="other",
    engines="A",
    files=FILES,
    technique="bounded symbolic execution of the real reader (CrossHair/z3) on an authentic file built by the real writer with symbolic contents, damaged at every byte position / prefix length / suffix / key, under an ideal-MAC model (injectivity + unforgeability assumptions A1/A2 made explicit)",
    level_text="Solver verdict, per authentic shape, over all file contents and keys and all replacement values of the damaged byte (subsumes every bit flip, 00, FF, +1), for every byte position, every proper prefix (and prefix + half byte, the image of a text-level cut), 1-2 appended bytes and every other session key: the reader raises or returns exactly the original content.",
    level_note="Assumptions that are part of the claim: A1 distinct MAC inputs of the writer have distinct MACs; A2 a MAC computed for an input the writer never MACed differs from every 16-byte window of the damaged file. AES-CBC is an uninterpreted bijection (C16). Trusted: z3, CrossHair proxies, S-io, text-layer reduction of text cuts to binary prefixes (+ half byte) by the hex2bin odd-length rule.",
    explanation="Bounded symbolic verification with CrossHair (z3). For each shape the real writer produces the binary from symbolic payload/tag/key bytes; the damage is applied (byte j replaced by a fresh symbolic value different from the original; truncation at j; truncation at j plus the high nibble of byte j; appended symbolic bytes; different symbolic key) and the real Bf3File.read_file / Bec2File.read_file runs with MAC checking on. The zero-padding equivalence of the MAC is kept in the model.",
    functions=["Bf3File.read_file", "Bf3File.from_binary", "Bf3File.dir_from_binary", "BytesReader.read/read_int/eof/ensure_eof", "Bec2File.read_file", "Bec2File.unpack_auth_blocks", "AuthBlock unpack methods", "AesEncryptorMixin.decrypt", "Bf3File.write_file (to build the authentic file)", "AES128Proxy.mac/encrypt/decrypt"],
    stubs=["S-io", "S-cbc", "S-crc", "S-sha", "S-mac-ideal (A1/A2 on top of the real adapter's mac)", "text-layer bypass"],
    assumptions=["A1: MAC injective on the writer's queries", "A2: MAC unforgeable (a never-MACed input yields a value different from every 16-byte window of the damaged file)", "text-level cuts reduce to binary prefix (+ 0h byte) by hex2bin's odd-length rule; cuts inside the comment header always fail to parse (AST inspection, not a solver verdict)"],
    bounds=dict(quick="shapes: BF3 1 component (5-byte payload, 1 tag), BF3 1 component 16 bytes no tag, BF3 encrypted 17-byte component, BEC2 with customer-key block + 5-byte component; every byte position x {replace, cut, cut+nibble} (BEC2 auth-block ciphertext: one byte of the second cipher block only; C08's arbitrary-frame query covers the frame parser for every decrypted frame); append 1 and 2 bytes; other key. Positions whose damage turns MAC bytes into parser structure are decided at a reduced level recorded per position in coverage.levels: the property's replacement classes (each bit flip, 00, FF, +1) instead of all 255 values, and if needed concrete distinct MAC tokens", thorough="adds BF3 2 components (3 + 16 bytes), the first and last byte of both cipher blocks of every auth block, and slightly larger per-position budgets (60/180/1500 s); the 33-byte/2-tag BF3 shape, the BEC2 update-block and two-block shapes and all 32 ciphertext positions per block were tried and did not fit a tier that can be repeated (single jobs beyond 30 min)"),
    outside=["multi-byte damage other than prefix/suffix", "MAC collisions/forgeries (assumed away by A1/A2)", "shapes beyond the catalogue"],
)


def shapes(tier):
    from vlib.enginea.shapes import comp

    S = [
        dict(name="bf3-p5t", framing="bf3", comps=[comp(5, [(0xC1, 1)])]),
        dict(name="bf3-p16", framing="bf3", comps=[comp(16, [])]),
        dict(name="bf3-e17", framing="bf3", comps=[comp(17, [(0xC2, 1)], enc=True)]),
        dict(name="bec2-cust-p5", framing="bec2", blocks=["cust"], comps=[comp(5, [(0xC3, 1)])]),
    ]
    if tier == "thorough":
        S += [
            dict(name="bf3-p3+p16", framing="bf3", comps=[comp(3, [(0xC3, 1)]), comp(16, [])]),
        ]
    return S


def file_len(sh):
    n = 0
    for c in sh["comps"]:
        n += 1 + 12 + 16 + 1 + sum(2 + l for _, l in c["tags"]) + 16
        n += -(-c["plen"] // 16) * 16 if c.get("enc") else c["plen"]
    n += 4 + 1
    if sh["framing"] == "bf3":
        return 5 + n
    hdr = 5 + 2
    for b in sh["blocks"]:
        hdr += 2 + 32
    return hdr + n


CHUNK = 4


def jobs(tier, seed):
    from vlib.enginea.shapes import comp as comp_

    J = []
    for sh in shapes(tier):
        n = file_len(sh)
        for kind in ("replace", "cut", "nibblecut"):
            allpos = list(range(n))
            if kind == "replace" and sh["framing"] == "bec2":
                # auth-block ciphertext: the uninterpreted cipher treats the 16 bytes of a block alike; quick keeps one
                # byte of the second cipher block, thorough the first and last byte of both blocks (every ciphertext
                # position costs ~7 min: all 32 per block did not fit a tier that can be run end to end)
                skip = set()
                p0 = 5
                for _ in sh["blocks"]:
                    ct = list(range(p0 + 2, p0 + 2 + 32))
                    skip |= set(ct) - ({ct[16]} if tier == "quick" else {ct[0], ct[15], ct[16], ct[31]})
                    p0 += 34
                allpos = [x for x in allpos if x not in skip]
            for a in range(0, len(allpos), CHUNK):
                pos = allpos[a : a + CHUNK]
                J.append(dict(name="%s:%s:%d-%d" % (sh["name"], kind, pos[0], pos[-1]), kind=kind, shape=sh, positions=pos, n=n, tier=tier, timeout=7000, cost=300 if (sh["framing"] == "bec2" and kind == "replace") else 100))
        J.append(dict(name="%s:append" % sh["name"], kind="append", shape=sh, positions=[1, 2], n=n, timeout=900, cost=50))
        J.append(dict(name="%s:otherkey" % sh["name"], kind="otherkey", shape=sh, positions=[0], n=n, timeout=900, cost=50))
        J.append(dict(name="%s:undamaged-twin" % sh["name"], kind="twin", shape=sh, positions=[0], n=n, timeout=600, cost=30))
    big = dict(name="bf3-p257", framing="bf3", comps=[comp_(257, [])])
    nb = file_len(big)
    J.append(dict(name="bf3-p257:replace:last-payload-bytes", kind="replace", shape=big, positions=[nb - 1, nb - 2, nb - 258], n=nb, tier=tier, timeout=7000, cost=400))
    J.append(dict(name="bf3-p257:cut:tail", kind="cut", shape=big, positions=[nb - 1, nb - 2], n=nb, tier=tier, timeout=7000, cost=200))
    # MAC comparison must be equality of all 16 bytes: near-collisions of the authentic MAC are rejected
    NEAR = [[[15, 1]], [[0, 0x80]], [[0, 1], [15, 1]], [[3, 0x5A], [9, 0x5A]], [[1, 0xFF], [2, 0xFF], [7, 0x0F], [8, 0x0F]]]
    sh0 = shapes(tier)[0]
    n0 = file_len(sh0)
    for pi, pat in enumerate(NEAR):
        J.append(dict(name="bf3-p5t:near-collision-mac:%d" % pi, kind="replace", shape=sh0, positions=[n0 - 1, n0 - 3, 40], n=n0, tier=tier, near=pat, timeout=3000, cost=150))
    J.append(dict(name="text:cut-inside-comment-header-rejected", kind="hdrcut", shape=shapes(tier)[0], positions=[0], n=0, timeout=600, cost=30))
    J.append(dict(name="vacuity:accepting-path-reachable", kind="reach", shape=shapes(tier)[0], positions=[0], n=file_len(shapes(tier)[0]), expect="violated", timeout=300))
    return J


def build(bf, b2, sym, sh, vals):
    comps = []
    for i, c in enumerate(sh["comps"]):
        p = sym.sym_bytes("pay%d_" % i, c["plen"])
        vals["pay%d" % i] = p
        desc = {}
        for t, (tid, tl) in enumerate(c["tags"]):
            v = b"\x02" if (tid == 0xC2 and c.get("enc")) else sym.sym_bytes("tag%d_%d_" % (i, t), tl)
            vals["tag%d_%d" % (i, t)] = v
            desc[tid] = v
        comps.append(bf.Bf3Component(desc, p, c["plen"], encrypt_by_session_key=bool(c.get("enc"))))
    return bf.Bf3File({}, comps)


def structural_mask(sh):
    """positions whose byte does not depend on contents/keys (sizes, addresses, tag ids,
    lengths, sentinel, block tags): equal in two concrete real-crypto writes with
    different contents.  Computed before the stubs are installed."""
    import io as _io
    from bec2format import bf3file as bf, bec2file as b2

    outs = []
    for seedbyte in (0x11, 0xA7):
        comps = []
        for i, c in enumerate(sh["comps"]):
            desc = {tid: (b"\x02" if (tid == 0xC2 and c.get("enc")) else bytes([seedbyte ^ t]) * tl) for t, (tid, tl) in enumerate(c["tags"])}
            comps.append(bf.Bf3Component(desc, bytes([(seedbyte + 3 * k) % 256 for k in range(c["plen"])]), c["plen"], encrypt_by_session_key=bool(c.get("enc"))))
        f = bf.Bf3File({}, comps)
        key = bytes([seedbyte]) * 16
        s = _io.StringIO()
        if sh["framing"] == "bf3":
            f.write_file(s, key)
        else:
            blocks, enc = [], []
            for k in sh["blocks"]:
                if k == "cust":
                    blocks.append(b2.InitCustKeyAuthBlock())
                    enc.append(b2.SoftwareCustKeyEncryptor(bytes([seedbyte ^ 0x55]) * 16))
                else:
                    blocks.append(b2.UpdateAuthBlock(bytes([seedbyte]) * 8, 3))
            b2.Bec2File(f, blocks, key).write_file(s, enc)
        outs.append(bytes.fromhex("".join(s.getvalue().split("\n")[1:])))
    a, b = outs
    assert len(a) == len(b)
    return [a[i] == b[i] for i in range(len(a))]


def header_cut_lemma():
    """Engine C: a file cut inside the comment header (before the blank separator line is complete)
    is never accepted.  From the AST of parse_bf3_file: the comment loop only ends at a line equal to
    the terminator literal; at end of input readline() returns '' which is not the terminator and
    does not split into two parts -> ValueError -> Bf3FileFormatError.  So acceptance of a prefix P
    needs a complete terminator line inside P.  Query (unbounded strings, 1 and 2 comments): P is a
    proper prefix of the header and P contains a terminator line -> unsat."""
    from props import c01_text
    from vlib.enginec import smt

    w, prs = c01_text.extract_writer(), c01_text.extract_parser()
    import re as _re

    m = _re.fullmatch(r"\{\}(.*?)\{\}(.*)", w["comment_fmt"], _re.S)
    mid, tail, term = m.group(1), m.group(2), prs["terminator"]
    if term != "\n" or not tail.endswith("\n") or w["writes"][1:2] != ["'\\n'"]:
        return dict(verdict="inconclusive", state="UNSUPPORTED_SYNTAX", message="terminator/format shape", queries=0, solver_s=0.0)
    results, tot = [], 0.0
    for ncom in (1, 2):
        L = ["(set-logic ALL)"]
        hdr = []
        for i in range(ncom):
            L.append("(declare-const k%d String)(declare-const v%d String)" % (i, i))
            for x in ("k%d" % i, "v%d" % i):
                L.append('(assert (not (str.contains %s "\\u{a}")))' % x)
            hdr += ["k%d" % i, smt.smt_str(mid), "v%d" % i, smt.smt_str(tail)]
        L.append("(define-fun H () String (str.++ %s %s))" % (" ".join(hdr), smt.smt_str(term)))
        L.append("(declare-const P String)")
        L.append("(assert (str.prefixof P H))(assert (< (str.len P) (str.len H)))")
        # a terminator line inside P: P starts with it, or it follows a line break
        L.append('(assert (or (str.prefixof %s P) (str.contains P (str.++ "\\u{a}" %s))))' % (smt.smt_str(term), smt.smt_str(term)))
        L.append("(check-sat)")
        r = None
        for solver in ("cvc5", "z3-new"):
            r = smt.run_smt("\n".join(L), solver, timeout=240)
            tot += r["time_s"]
            if r["result"] in ("sat", "unsat"):
                break
        results.append((ncom, r["result"], r["solver"]))
    bad = [x for x in results if x[1] == "sat"]
    unk = [x for x in results if x[1] not in ("sat", "unsat")]
    out = dict(queries=len(results), solver_s=round(tot, 2), symbolic_dims=1, message="header-cut lemma (1 and 2 comments, unbounded strings): %s" % results)
    if unk:
        out.update(verdict="inconclusive", state="UNKNOWN")
    elif bad:
        out.update(verdict="violated", state="SAT", signature="C04:header-cut-accepted", witness={"results": results})
    else:
        out.update(verdict="held", state="UNSAT")
    return out


def run_job(job):
    import z3
    from vlib.enginea import sym, runner, stubs

    if job["kind"] == "hdrcut":
        from vlib import common

        common.setup_paths()
        return header_cut_lemma()

    stubs.load_repo()
    STRUCT = structural_mask(job["shape"])
    stubs.install_uf_cbc()
    stubs.install_uf_crc()
    stubs.install_uf_sha()
    stubs.install_text_bypass()
    M = stubs.install_ideal_mac()
    stubs.install_forking_authmap()
    from bec2format import bf3file as bf, bec2file as b2

    sh, kind = job["shape"], job["kind"]
    agg = dict(queries=0, solver_s=0.0, paths=0, realisations=0)
    last = None
    levels_used = {}
    quick = job.get("tier", "quick") == "quick"
    for j in job["positions"]:
        LEVEL = ["full"]
        SYMPOS = [False]

        def h():
            M.reset()
            M.tokens = LEVEL[0] == "classes+tokens" or bool(job.get("near"))
            M.near = job.get("near")
            key = sym.sym_bytes("key", 16)
            vals = dict(key=key)
            f = build(bf, b2, sym, sh, vals)
            carrier = stubs.Carrier()
            enc = []
            if sh["framing"] == "bf3":
                f.write_file(carrier, key)
            else:
                ck = sym.sym_bytes("ck", 16)
                code = sym.sym_bytes("code", 8)
                vals.update(ck=ck, code=code)
                blocks = []
                for k in sh["blocks"]:
                    if k == "cust":
                        blocks.append(b2.InitCustKeyAuthBlock())
                        enc.append(b2.SoftwareCustKeyEncryptor(ck))
                    else:
                        blocks.append(b2.UpdateAuthBlock(code, 3))
                        enc.append(b2.ConfigSecurityCodeEncryptor(code))
                b2.Bec2File(f, blocks, key).write_file(carrier, enc)
            raw = carrier.raw
            if len(raw) != job["n"]:
                raise AssertionError("file length model wrong: %d vs %d" % (len(raw), job["n"]))
            rkey = key
            if kind == "replace":
                nb = sym.sym_int("nb", 0, 256)
                if LEVEL[0] != "full":
                    # the property's own replacement classes: each single-bit flip, 00, FF, +1
                    with sym.NoTracing():
                        conc = type(raw[j]) is int
                    if not conc:
                        # symbolic original byte (content/ciphertext position): no reduced level, only more time
                        SYMPOS[0] = True
                    else:
                        o = int(raw[j])
                        cls = sorted(set([o ^ (1 << b) for b in range(8)] + [0, 255, (o + 1) % 256]) - {o})
                        sym.assume(z3.Or([sym.expr_of(nb) == c for c in cls]))
                        for c in cls:  # one path per class value, the byte itself concrete on each
                            if nb == c:
                                nb = c
                                break
                if nb == raw[j]:
                    return True
                dam = raw[:j] + bytes([nb]) + raw[j + 1 :]
                vals["nb"] = nb
            elif kind == "cut":
                dam = raw[:j]
            elif kind == "nibblecut":
                dam = raw[:j] + bytes([raw[j] // 16])
            elif kind == "append":
                extra = sym.sym_bytes("extra", j)
                dam = raw + extra
                vals["extra"] = extra
            elif kind == "otherkey":
                rkey = sym.sym_bytes("key2", 16)
                sym.assume(z3.Not(sym.bytes_equal_expr(rkey, key)))
                dam = raw
                vals["key2"] = rkey
            else:
                dam = raw
            M.mode = "reader"
            M.windows_of = dam
            c2 = stubs.Carrier()
            c2.raw, c2.comments = dam, {}
            try:
                if sh["framing"] == "bf3":
                    g = bf.Bf3File.read_file(c2, True, rkey)
                else:
                    if kind == "otherkey":
                        # 'read with a different session key' for BEC2 = a different wrapping key
                        enc2 = [b2.SoftwareCustKeyEncryptor(rkey), b2.ConfigSecurityCodeEncryptor(rkey[:8])]
                        r = b2.Bec2File.read_file(c2, enc2)
                    else:
                        r = b2.Bec2File.read_file(c2, enc)
                    g = r.bf3file
            except Exception:
                return kind not in ("twin", "reach")
            if kind == "reach":
                return False
            ok = len(g.components) == len(f.components)
            if ok:
                for a, b in zip(f.components, g.components):
                    ok = ok and b.blob[: b.actual_len] == a.blob and b.actual_len == a.actual_len and list(b.description.items()) == list(a.description.items()) and b.encrypt_by_session_key == a.encrypt_by_session_key and (a.encrypt_by_session_key or len(b.blob) == len(a.blob))
            if ok and sh["framing"] == "bec2" and r.session_key != key:
                ok = False
            if not ok:
                runner.record_witness(pos=j, damaged=dam, original=raw, **vals)
            return ok

        if job.get("near"):
            budgets = [("near-collision-tokens", 600 if quick else 900)]
        elif kind == "replace" and STRUCT[j]:
            # structural byte: try all 255 values, then the property's replacement classes, then classes with MAC tokens
            budgets = [("full", 45 if quick else 60), ("classes", 120 if quick else 180), ("classes+tokens", 1200 if quick else 1500)]  # thorough: slightly larger; the former 600/900/3000 s per position made the tier run for hours
        else:
            budgets = [("full", 1500 if quick else 4000)]
        for lvl, budget in budgets:
            LEVEL[0] = lvl
            res = runner.run(h, budget, budget)
            for k in agg:
                agg[k] += res.get(k, 0) or 0
            if res["verdict"] != "inconclusive" or res.get("state") not in ("CANNOT_CONFIRM",):
                break
        levels_used[str(j)] = LEVEL[0] if not SYMPOS[0] else {"classes": "full", "classes+tokens": "full+tokens"}.get(LEVEL[0], LEVEL[0])
        last = res
        if res["verdict"] != "held":
            res["message"] = "position %d: %s" % (j, res.get("message"))
            break
    out = dict(last)
    out.update(agg)
    out["solver_s"] = round(agg["solver_s"], 2)
    out["symbolic_dims"] = 16 + sum(c["plen"] for c in sh["comps"]) + 1
    out["levels"] = levels_used
    if any(v != "full" for v in levels_used.values()):
        out["message"] = (out.get("message") or "") + " | reduced levels: %s" % {k: v for k, v in levels_used.items() if v != "full"}
    if out["verdict"] == "violated":
        out["signature"] = "C04:%s-accepted-as-different-content" % kind
        w = out.get("witness") or {}
        # classify the short-read family: the reader accepted a file that ends inside a payload
        if kind in ("cut", "nibblecut"):
            out["signature"] = "C04:truncated-file-accepted"
    return out


def _unhex(w):
    if isinstance(w, dict):
        if set(w) == {"hex"}:
            return bytes.fromhex(w["hex"])
        return {k: _unhex(v) for k, v in w.items()}
    return w


def _hex_text(binary, cut_nibble=False):
    t = binary.hex().upper()
    return "\n" + t + "\n"


def replay(job):
    """real AES: rebuild the authentic file from the witness contents with the
    real writer, apply the same damage at text level, run the real reader.
    Value-dependent triggers (e.g. 'the cut bytes are 00') are searched around
    the witness: payload bytes over {witness, 00-tail variants, random}."""
    import random
    import register_crypto_plugin  # noqa
    from bec2format import bf3file as bf, bec2file as b2

    sh, kind = job["shape"], job["kind"]
    if kind in ("reach",):
        return dict(reproduced=True, signature="twin")
    if kind == "hdrcut":
        # concrete: every proper prefix of a two-comment header must be rejected by the real parser
        from bec2format.error import Bf3FileFormatError

        hdr = "Key A: value 1\nB: x:y\n\n"
        for i in range(len(hdr)):
            try:
                bf.Bf3File.read_file(io.StringIO(hdr[:i]))
                return dict(reproduced=True, signature="C04:header-cut-accepted", detail="prefix %r accepted" % hdr[:i])
            except Bf3FileFormatError:
                pass
            except Exception as e:
                return dict(reproduced=True, signature="C04:header-cut-accepted", detail="prefix %r: %s" % (hdr[:i], type(e).__name__))
        return dict(reproduced=False)
    w = _unhex(job.get("witness") or {})
    rnd = random.Random(3)
    pos = w.get("pos", job["positions"][0])
    for t in range(600):
        v = dict(w)
        if t > 0:
            for i, c in enumerate(sh["comps"]):
                p = bytearray(rnd.randrange(256) for _ in range(c["plen"]))
                z = rnd.randrange(0, c["plen"] + 1)
                if rnd.random() < 0.7 and z:
                    p[-z:] = bytes(z)
                v["pay%d" % i] = bytes(p)
            v["key"] = bytes(rnd.randrange(256) for _ in range(16))
        key = v.get("key", bytes(16))
        comps = []
        for i, c in enumerate(sh["comps"]):
            desc = {}
            for tt, (tid, tl) in enumerate(c["tags"]):
                desc[tid] = v.get("tag%d_%d" % (i, tt), b"\x02" if tid == 0xC2 else bytes(tl))
            comps.append(bf.Bf3Component(desc, v.get("pay%d" % i, bytes(c["plen"])), c["plen"], encrypt_by_session_key=bool(c.get("enc"))))
        f = bf.Bf3File({}, comps)
        s = io.StringIO()
        enc = []
        if sh["framing"] == "bf3":
            f.write_file(s, key)
        else:
            blocks = []
            for k in sh["blocks"]:
                if k == "cust":
                    blocks.append(b2.InitCustKeyAuthBlock())
                    enc.append(b2.SoftwareCustKeyEncryptor(v.get("ck", bytes(16))))
                else:
                    blocks.append(b2.UpdateAuthBlock(v.get("code", bytes(8)), 3))
                    enc.append(b2.ConfigSecurityCodeEncryptor(v.get("code", bytes(8))))
            b2.Bec2File(f, blocks, key).write_file(s, enc)
        text = s.getvalue()
        raw = bytes.fromhex("".join(text.split("\n")[1:]))
        positions = [pos] if t == 0 else job["positions"]
        for j in positions:
            rkey = key
            if kind == "replace":
                cands = [w.get("nb")] if (t == 0 and "nb" in w) else [raw[j] ^ 1, 0, 255, (raw[j] + 1) % 256]
                dams = [raw[:j] + bytes([nb]) + raw[j + 1 :] for nb in cands if nb is not None and nb != raw[j]]
            elif kind == "cut":
                dams = [raw[:j]]
            elif kind == "nibblecut":
                dams = [raw[:j] + bytes([raw[j] // 16])]
            elif kind == "append":
                dams = [raw + w.get("extra", bytes(j))] if t == 0 else [raw + bytes(j), raw + b"\xff" * j]
            elif kind == "otherkey":
                rkey = w.get("key2", bytes(15) + b"\x01") if t == 0 else bytes(rnd.randrange(256) for _ in range(16))
                if rkey == key:
                    continue
                dams = [raw]
            else:
                dams = [raw]
            for dam in dams:
                txt = "\n" + dam.hex().upper() + "\n"
                try:
                    if sh["framing"] == "bf3":
                        g = bf.Bf3File.read_file(io.StringIO(txt), True, rkey)
                    else:
                        e2 = enc if kind != "otherkey" else [b2.SoftwareCustKeyEncryptor(rkey), b2.ConfigSecurityCodeEncryptor(rkey[:8])]
                        g = b2.Bec2File.read_file(io.StringIO(txt), e2).bf3file
                except Exception:
                    if kind == "twin":
                        return dict(reproduced=True, signature="C04:authentic-file-rejected", detail="undamaged file rejected")
                    continue
                same = len(g.components) == len(comps) and all(b.blob[: b.actual_len] == a.blob and b.actual_len == a.actual_len and b.description == a.description and (a.encrypt_by_session_key or len(b.blob) == len(a.blob)) for a, b in zip(comps, g.components))
                if not same:
                    sig = "C04:truncated-file-accepted" if kind in ("cut", "nibblecut") else "C04:%s-accepted-as-different-content" % kind
                    return dict(reproduced=True, signature=sig, detail="%s at %d of %d bytes: wrote %r, damaged file read as %r" % (kind, j, len(raw), f, g), tries=t + 1)
    return dict(reproduced=False, detail="no reproduction in 600 candidate files")
