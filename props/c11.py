"""C11 - configuration updates are history-independent (one inductive step from an arbitrary valid pre-state)."""
import io

PROPERTY = "C11"
FILES = ["bec2format/bf3file.py", "bec2format/bec2file.py", "bec2format/configid.py"]
META = dict(
    level="other",
    engines="A",
    files=FILES,
    technique="inductive step by bounded symbolic execution (CrossHair/z3): one operation of the real Bf3File/Bec2File API from an arbitrary pre-state satisfying the invariant 'at most one configuration component', with component kinds chosen by solver-decided forks and blobs, configuration values, security code and version bytes symbolic",
    level_text="Solver verdict over all pre-states with <= 3 components (each: TYPE tag absent / loader / peripheral / main / configuration, at most one configuration; symbolic blobs), all derived-comment presence patterns and all configuration values of 3 configuration shapes: after set_config exactly one configuration component, last, encoding only the new configuration, all other components the same objects in the same order; derived comments equal for two different pre-states (function of the configuration only), foreign comments untouched; derive_auth_blocks from any pre-state of <= 1 block per kind leaves <= 1 per kind, the requested init block, and an update block with the code and version exactly when both exist. Because every operation preserves the invariant and the post-state is a function of (other components, new configuration), histories of any length follow.",
    level_note="The invariant is the induction hypothesis; a counterexample from a pre-state violating it is not a finding (none is generated: the pre-state generator asserts it). Identifier text formatting is C12's subject: naming values other than the version byte are concrete here. Trusted: z3, CrossHair proxies, the reference TLV encoder shared with C10.",
    explanation="Bounded symbolic verification with CrossHair (z3) of Bf3File.set_config, _get_config_ndx, derive_comments_from_config, Bec2File.derive_auth_blocks_from_config, add_auth_block.",
    functions=["Bf3File.set_config", "Bf3File._get_config_ndx", "Bf3File.derive_comments_from_config", "Bec2File.derive_auth_blocks_from_config", "Bec2File.add_auth_block", "ConfigId.create_from_prj_settings", "ConfigId.create_from_dev_settings", "conf_dict_to_tlv"],
    stubs=["S-rng (Bec2File constructor)"],
    assumptions=["pre-states satisfy the invariant: at most one configuration component"],
    bounds=dict(quick="pre-states of 0..3 components x 5 kinds each (solver forks), 3 configuration shapes; comment patterns: all 8 presence patterns of the three derived keys; auth-block pre-states: all 8 subsets, both modes", thorough="same with 4 components"),
    outside=["more than 3 (4) components in the pre-state", "formatting of identifiers (C12)", "write/read steps (C01/C02/C06 show they restore the same object model)"],
)

CFG_SHAPES = {
    "plain": {(0x0100, 0x10): 3, (0x0101, 0x11): 20},
    "prj": {(0x0620, 0x01): ("c", (12345).to_bytes(4, "big")), (0x0620, 0x05): ("c", (77).to_bytes(2, "big")), (0x0620, 0x07): 1, (0x0620, 0x06): ("c", b"Name"), (0x0202, 0x82): 8},
    "dev": {(0x0620, 0x01): ("c", (54321).to_bytes(4, "big")), (0x0620, 0x04): 1, (0x0620, 0x03): ("c", b"Dev"), (0x0620, 0x20): 1},
    "noid": {(0x0202, 0x82): 8, (0x0300, 0x01): 2},
}


def jobs(tier, seed):
    J = []
    ncomp = 3 if tier == "quick" else 4
    for n in range(0, ncomp + 1):
        for cfg in ("plain", "prj"):
            J.append(dict(name="set_config:%dcomps:%s" % (n, cfg), kind="setconfig", n=n, cfg=cfg, timeout=3000, cost=5 ** n))
    for cfg in ("prj", "dev", "plain"):
        J.append(dict(name="derive_comments:%s" % cfg, kind="comments", cfg=cfg, tier=tier, timeout=1500, cost=300))
    for cfg in ("prj", "dev", "noid", "plain"):
        for mode in (False, True):
            J.append(dict(name="derive_auth_blocks:%s:%s" % (cfg, "cust" if mode else "ecc"), kind="auth", cfg=cfg, cust=mode, timeout=900, cost=100))
    J.append(dict(name="aliasing:two-files-from-one-list", kind="alias", timeout=900, cost=100))
    J.append(dict(name="set_config:twin", kind="setconfig", n=1, cfg="plain", twin=True, expect="violated", timeout=300))
    return J


def mk_cfg(sym, name, tag=""):
    cfg = {}
    for k, v in CFG_SHAPES[name].items():
        if isinstance(v, tuple):
            cfg[k] = v[1]
        else:
            cfg[k] = sym.sym_bytes("cfg%s_%04x_%02x_" % (tag, k[0], k[1]), v)
    return cfg


def ref_blob(cfg):
    """independent encoder for assignment-only configurations: groups '01 kk kk (vv ll content)*'
    separated by FF, greedy blocks of <= 117 bytes (closing FF included), length prefixes, 00"""
    blocks, cur, last_key = [], b"", None
    for (k, v), content in sorted(cfg.items()):
        item = bytes([v, len(content)]) + content
        pre = bytes([1, k >> 8, k & 0xFF])
        if cur and len(cur) + 1 + len(pre) + len(item) + 1 > 117:
            blocks.append(cur + b"\xff")
            cur, last_key = b"", None
        if cur and last_key == k:
            cur += item
        else:
            cur += (b"\xff" if cur else b"") + pre + item
        last_key = k
    if cur:
        blocks.append(cur)
    out = b""
    for blk in blocks:
        out += bytes([len(blk)]) + blk
    return out + b"\x00"


def run_job(job):
    import z3
    from vlib.enginea import sym, runner, stubs

    stubs.load_repo()
    stubs.install_sym_rng()
    from bec2format import bf3file as bf, bec2file as b2

    kind = job["kind"]
    TYPES = [None, b"\x00", b"\x01", b"\x02", b"\x03"]

    if kind == "setconfig":
        n, twin = job["n"], job.get("twin")

        def h():
            comps, kinds = [], []
            for i in range(n):
                t = sym.sym_int("type%d" % i, 0, 5)
                tv = None
                for c in range(5):
                    if t == c:
                        tv = TYPES[c]
                        kinds.append(c)
                        break
                desc = {0xC1: b"\x00"}
                if tv is not None:
                    desc[0xC3] = tv
                comps.append(bf.Bf3Component(desc, sym.sym_bytes("blob%d_" % i, 4)))
            if sum(1 for k in kinds if k == 4) > 1:
                return True  # outside the invariant (induction hypothesis)
            f = bf.Bf3File({"Foreign": "x"}, list(comps))
            cfg = mk_cfg(sym, job["cfg"])
            f.set_config(cfg)
            others = [c for c, k in zip(comps, kinds) if k != 4]
            ok = len(f.components) == len(others) + 1
            if ok:
                for a, b in zip(f.components[:-1], others):
                    ok = ok and a is b
                last = f.components[-1]
                ok = ok and last.description.get(0xC3) == b"\x03" and last.blob == ref_blob(cfg) and last.encrypt_by_session_key is True
                ok = ok and sum(1 for c in f.components if c.description.get(0xC3) == b"\x03") == 1 and f.comments == {"Foreign": "x"}
            if twin:
                ok = False
            if not ok:
                runner.record_witness(kinds=kinds)
            return ok

        res = runner.run(h, job["timeout"] - 60, job["timeout"] - 60)
        res["symbolic_dims"] = 5 * n + 23
        if res["verdict"] == "violated":
            res["signature"] = "C11:two-configurations"
        return res

    if kind == "alias":
        def h():
            # two files built from the same list object, and the caller keeps using the list
            fw = bf.Bf3Component({0xC3: b"\x02"}, sym.sym_bytes("fw", 3))
            lst = [fw]
            a, b = bf.Bf3File({}, lst), bf.Bf3File({}, lst)
            ca, cb = mk_cfg(sym, "plain", "A"), mk_cfg(sym, "plain", "B")
            a.set_config(ca)
            b.set_config(cb)
            ok = len(lst) == 1 and lst[0] is fw
            for f_, c_ in ((a, ca), (b, cb)):
                ok = ok and len(f_.components) == 2 and f_.components[0] is fw and f_.components[1].blob == ref_blob(c_)
            a.set_config(cb)
            ok = ok and len(a.components) == 2 and a.components[1].blob == ref_blob(cb) and len(b.components) == 2
            if not ok:
                runner.record_witness(n=len(lst))
            return ok

        res = runner.run(h, job["timeout"] - 60, job["timeout"] - 60)
        res["symbolic_dims"] = 49
        if res["verdict"] == "violated":
            res["signature"] = "C11:shared-component-list"
        return res

    if kind == "comments":
        DER = ["Configuration", "DeviceSettings", "RequiresBusAddress"]

        def h():
            cfg = mk_cfg(sym, job["cfg"])
            if job.get("tier") != "thorough":
                # the version byte is formatted into text (enumerated value by value): boundary values in quick
                for kk in ((0x0620, 0x07), (0x0620, 0x04)):
                    if kk in cfg and not isinstance(CFG_SHAPES[job["cfg"]][kk], tuple):
                        sym.assume(z3.Or([sym.expr_of(cfg[kk][0]) == v for v in (0, 9, 10, 99, 100, 255)]))
            pat = sym.sym_int("pattern", 0, 8)
            pre1 = {"Foreign": "x", "Creator": "y"}
            for c in range(8):
                if pat == c:
                    for b, k in enumerate(DER):
                        if c >> b & 1:
                            pre1[k] = "old-" + k
                    break
            f1 = bf.Bf3File(dict(pre1), [])
            f2 = bf.Bf3File({"Foreign": "x", "Creator": "y"}, [])
            f1.derive_comments_from_config(cfg)
            f2.derive_comments_from_config(cfg)
            ok = f1.comments == f2.comments and f1.comments.get("Foreign") == "x" and f1.comments.get("Creator") == "y"
            ok = ok and all(k in DER + ["Foreign", "Creator"] for k in f1.comments)
            # and a second derivation with the same configuration changes nothing
            snap = dict(f1.comments)
            f1.derive_comments_from_config(cfg)
            ok = ok and f1.comments == snap
            if not ok:
                runner.record_witness(pattern=pat, cfg={str(k): v for k, v in cfg.items()})
            return ok

        res = runner.run(h, job["timeout"] - 60, job["timeout"] - 60)
        res["symbolic_dims"] = 10
        if res["verdict"] == "violated":
            res["signature"] = "C11:derived-comments-depend-on-history"
        return res

    if kind == "auth":
        def h():
            cfg = mk_cfg(sym, job["cfg"])
            pat = sym.sym_int("pre", 0, 8)
            pre = []
            for c in range(8):
                if pat == c:
                    if c & 1:
                        pre.append(b2.InitCustKeyAuthBlock())
                    if c & 2:
                        pre.append(b2.InitEccAuthBlock(1))
                    if c & 4:
                        pre.append(b2.UpdateAuthBlock(b"oldcode!", 200))
                    break
            w = b2.Bec2File(bf.Bf3File({}, []), pre, bytes(range(16)))
            for _ in range(2):
                w.derive_auth_blocks_from_config(cfg, job["cust"])
            blocks = list(w.auth_blocks.values())
            tags = [b.tag for b in blocks]
            ok = len(tags) == len(set(tags)) and all(t in (1, 2, 3) for t in tags)
            want_tag = 1 if job["cust"] else 3
            ok = ok and want_tag in tags and isinstance(w.auth_blocks[want_tag], b2.InitCustKeyAuthBlock if job["cust"] else b2.InitEccAuthBlock)
            has_code = (0x0202, 0x82) in cfg
            has_id = (0x0620, 0x07) in cfg or (0x0620, 0x04) in cfg
            if has_code and has_id:
                u = w.auth_blocks.get(2)
                ver = cfg.get((0x0620, 0x07), cfg.get((0x0620, 0x04)))
                ok = ok and isinstance(u, b2.UpdateAuthBlock) and u.config_security_code == cfg[(0x0202, 0x82)] and u.version == ver[0]
            # from an empty file: exactly the requested blocks
            e = b2.Bec2File(bf.Bf3File({}, []), (), bytes(range(16)))
            e.derive_auth_blocks_from_config(cfg, job["cust"])
            ok = ok and sorted(e.auth_blocks) == sorted([want_tag] + ([2] if (has_code and has_id) else []))
            if not ok:
                runner.record_witness(pre=pat, cfg={str(k): v for k, v in cfg.items()})
            return ok

        res = runner.run(h, job["timeout"] - 60, job["timeout"] - 60)
        res["symbolic_dims"] = 10
        if res["verdict"] == "violated":
            res["signature"] = "C11:auth-blocks"
        return res
    raise ValueError(kind)


def replay(job):
    """the same pre-state built through the public API by the listed steps, on the real code"""
    import register_crypto_plugin  # noqa
    from bec2format import bf3file as bf, bec2file as b2

    if job.get("twin"):
        return dict(reproduced=True, signature="twin")
    w = job.get("witness") or {}
    kind = job["kind"]
    TYPES = [None, b"\x00", b"\x01", b"\x02", b"\x03"]
    cfg = {}
    for k, v in CFG_SHAPES[job.get("cfg", "plain")].items():
        cfg[k] = v[1] if isinstance(v, tuple) else bytes([7]) * v
    for k, v in (w.get("cfg") or {}).items():
        if isinstance(v, dict) and "hex" in v:
            cfg[eval(k)] = bytes.fromhex(v["hex"])
    if kind == "alias":
        fw = bf.Bf3Component({0xC3: b"\x02"}, b"abc")
        lst = [fw]
        a, b = bf.Bf3File({}, lst), bf.Bf3File({}, lst)
        a.set_config({(0x0100, 0x10): b"AAA"})
        b.set_config({(0x0100, 0x10): b"BBB"})
        bad = len(lst) != 1 or len(a.components) != 2 or len(b.components) != 2 or b"AAA" not in a.components[-1].blob
        return dict(reproduced=bad, signature="C11:shared-component-list", detail="two files built from one list: caller's list now has %d items, file a holds %r" % (len(lst), a.components))
    if kind == "setconfig":
        kinds = w.get("kinds", [])
        f = bf.Bf3File({"Foreign": "x"}, [])
        steps = []
        for i, k in enumerate(kinds):
            if k == 4:
                f.set_config({(0x0100, 0x10): b"old"})
                steps.append("set_config(old)")
            else:
                desc = {0xC1: b"\x00"}
                if TYPES[k] is not None:
                    desc[0xC3] = TYPES[k]
                f.components.append(bf.Bf3Component(desc, bytes([i]) * 4))
                steps.append("append(component %s TYPE tag)" % ("without" if TYPES[k] is None else "with"))
        # components appended after set_config end up behind it; reorder as in the witness via insert
        order = []
        comps = list(f.components)
        f.components = []
        ci = [c for c in comps if c.description.get(0xC3) == b"\x03"]
        oi = [c for c in comps if c.description.get(0xC3) != b"\x03"]
        for k in kinds:
            f.components.insert(len(f.components), ci.pop(0) if k == 4 else oi.pop(0))
        f.set_config(cfg)
        steps.append("set_config(new)")
        ncfg = sum(1 for c in f.components if c.description.get(0xC3) == b"\x03")
        bad = ncfg != 1 or f.components[-1].description.get(0xC3) != b"\x03"
        return dict(reproduced=bad, signature="C11:two-configurations", detail="steps %s -> %d configuration components: %r" % (steps, ncfg, f.components))
    if kind == "comments":
        pat = w.get("pattern", 7)
        DER = ["Configuration", "DeviceSettings", "RequiresBusAddress"]
        pre = {"Foreign": "x", "Creator": "y"}
        for b, k in enumerate(DER):
            if pat >> b & 1:
                pre[k] = "old-" + k
        f1, f2 = bf.Bf3File(dict(pre), []), bf.Bf3File({"Foreign": "x", "Creator": "y"}, [])
        try:
            f1.derive_comments_from_config(cfg)
            f2.derive_comments_from_config(cfg)
        except Exception as e:
            return dict(reproduced=True, signature="C11:derived-comments-depend-on-history", detail="%s: %s" % (type(e).__name__, e))
        return dict(reproduced=f1.comments != f2.comments, signature="C11:derived-comments-depend-on-history", detail="%r vs %r" % (f1.comments, f2.comments))
    if kind == "auth":
        pre, c = [], w.get("pre", 0)
        if c & 1:
            pre.append(b2.InitCustKeyAuthBlock())
        if c & 2:
            pre.append(b2.InitEccAuthBlock(1))
        if c & 4:
            pre.append(b2.UpdateAuthBlock(b"oldcode!", 200))
        wf = b2.Bec2File(bf.Bf3File({}, []), pre, bytes(16))
        wf.derive_auth_blocks_from_config(cfg, job["cust"])
        wf.derive_auth_blocks_from_config(cfg, job["cust"])
        tags = [b.tag for b in wf.auth_blocks.values()]
        want = 1 if job["cust"] else 3
        has = (0x0202, 0x82) in cfg and ((0x0620, 0x07) in cfg or (0x0620, 0x04) in cfg)
        bad = want not in tags or len(tags) != len(set(tags)) or (has and 2 not in tags)
        if has and 2 in tags:
            u = wf.auth_blocks[2]
            ver = cfg.get((0x0620, 0x07), cfg.get((0x0620, 0x04)))
            bad = bad or u.config_security_code != cfg[(0x0202, 0x82)] or u.version != ver[0]
        return dict(reproduced=bad, signature="C11:auth-blocks", detail="blocks %r" % (wf.auth_blocks,))
    return dict(reproduced=False)
