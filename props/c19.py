"""C19 (partial) - key and point encodings: DER primitives, point strings, the BEC2 raw/DER header, decoder error discipline."""
import os

PROPERTY = "C19"
FILES = [
    "appnotes/register_crypto_plugin/ecdsa/der.py",
    "appnotes/register_crypto_plugin/ecdsa/util.py",
    "appnotes/register_crypto_plugin/ecdsa/keys.py",
    "appnotes/register_crypto_plugin/ecdsa/ellipticcurve.py",
    "appnotes/register_crypto_plugin/ecdsa/curves.py",
    "appnotes/register_crypto_plugin/__init__.py",
    "bec2format/crypto.py",
]
META = dict(
    level="other",
    engines="B",
    files=FILES,
    technique="the real codec functions (der.py encoders/decoders, util number/string conversions, VerifyingKey/SigningKey from_der/to_der/from_string/to_string, PublicEccKey raw<->DER header) are executed on bit-vector proxies and byte strings of proxies (Engine B path explorer, z3); the C-level conversions ('%x' % n, hexlify/unhexlify, int(text, 16), bytes()) are rewritten at import from the current source into exact bit-vector terms; every path's result is compared by z3 with an X.690 / SEC1 reference written in this file; counterexamples are replayed on the unmodified package",
    level_text="Bounded solver verdict: (1) DER INTEGER and length encoders produce the unique minimal X.690 encoding and their decoders invert them for every integer below 256^k, k <= 4 and k in {32, 33} (quick) / k <= 8 and {24, 28, 32, 33, 48, 66} (thorough); OCTET STRING / BIT STRING / SEQUENCE / constructed / OID encoders and decoders are inverse for contents at the length-octet boundaries {0, 1, 127, 128, 255, 256}; (2) every DER decoder raises nothing but UnexpectedDER on an arbitrary buffer of up to 4 (quick) / 6 (thorough) bytes and accepts integers, lengths only in minimal form; (3) for NIST P-256 keys: public-key DER (named curve), SEC1 and PKCS#8 private DER, uncompressed / compressed / hybrid / raw point strings - every single-byte change at every position (byte value symbolic), every truncation and every extension by one or two symbolic bytes is either rejected with a documented error (UnexpectedDER, MalformedPointError, UnknownCurveError) or - single-byte changes only - decoded to a key; truncated and extended encodings are always rejected; an unchanged encoding decodes to the same numbers; (4) the 27-byte BEC2 header: create_from_raw_fmt(raw).to_raw_bin_fmt() == raw and to_der_fmt() == header || raw for every 64-byte raw key accepted by the curve test, including leading-zero coordinates.",
    level_note="PARTIAL CLAIM. Outside: byte compatibility with OpenSSL as an executable oracle (the reference here is X.690/SEC1 as transcribed in this file, which is what OpenSSL implements, but OpenSSL itself is not run), PEM/base64, the other 16 curves and explicit curve parameters (quick), EdDSA. Stubs (over-approximations, sound for error-discipline claims): CurveFp.contains_point and the cofactor test answer nondeterministically for symbolic coordinates, square roots mod p for compressed points are nondeterministic, generator * symbolic scalar returns a fixed point (public key derivation is C17's subject).",
    explanation="Bounded symbolic verification with Engine B: the codec modules are loaded from /repo's current source through an import hook that rewrites only the C-boundary call sites into exact proxy operations; all branches, slices and comparisons are the real code; z3 decides each path's claim; witnesses are concretised and replayed on the unmodified modules.",
    functions=["der.encode_integer", "der.remove_integer", "der.encode_length", "der.read_length", "der.encode_octet_string", "der.remove_octet_string", "der.encode_bitstring", "der.remove_bitstring", "der.encode_sequence", "der.remove_sequence", "der.encode_constructed", "der.remove_constructed", "der.encode_oid", "der.remove_object", "der.encode_number", "der.read_number", "util.number_to_string", "util.string_to_number", "VerifyingKey.from_der", "VerifyingKey.to_der", "VerifyingKey.from_string", "VerifyingKey.to_string", "SigningKey.from_der", "SigningKey.to_der", "SigningKey.from_string", "AbstractPoint.from_bytes", "AbstractPoint.to_bytes", "PublicEccKey.create_from_raw_fmt", "PublicEccKey.to_raw_bin_fmt", "PublicEccKeyProxy.create_from_der_fmt"],
    stubs=["import-time rewrite of a % b, int(x, 16), binascii.hexlify/unhexlify, bytes()/bytearray() call sites into exact proxy helpers (identity on concrete values)", "CurveFp.contains_point / point_is_valid cofactor test: nondeterministic on symbolic coordinates", "numbertheory.square_root_mod_prime: nondeterministic (error or any residue) on symbolic input", "PointJacobi.__mul__ with a symbolic scalar: returns the generator"],
    assumptions=[],
    bounds=dict(quick="integers < 256^k for k in 1..4, 32, 33; lengths < 2^24; arbitrary decoder buffers of <= 4 bytes; P-256 encodings: every position x every byte value, every cut, 1- and 2-byte extensions", thorough="k in 1..8, 24, 28, 32, 33, 48, 66; buffers <= 6 bytes; + explicit-parameter public key positions"),
    outside=["OpenSSL as executable oracle", "PEM", "curves other than P-256 at key level", "EdDSA", "explicit curve parameters (quick)"],
)

ALLOWED = ("UnexpectedDER", "MalformedPointError", "UnknownCurveError")
PKG = "register_crypto_plugin"


def jobs(tier, seed):
    J = []
    ks = [1, 2, 3, 4, 32, 33] if tier == "quick" else [1, 2, 3, 4, 5, 6, 7, 8, 24, 28, 32, 33, 48, 66]
    for k in ks:
        J.append(dict(name="der:integer:%dbytes" % k, kind="encint", k=k, timeout=900, cost=10 * k))
    for k in (1, 2, 3):
        J.append(dict(name="der:length:%dbytes" % k, kind="enclen", k=k, timeout=600, cost=10))
    for what in ("octet", "bitstring", "sequence", "constructed"):
        J.append(dict(name="der:container:%s" % what, kind="container", what=what, timeout=900, cost=50))
    J.append(dict(name="der:oid", kind="oid", timeout=900, cost=50))
    nmax = 4 if tier == "quick" else 6
    for fn in ("read_length", "remove_integer", "remove_sequence", "remove_octet_string", "remove_object", "remove_bitstring", "remove_constructed", "read_number"):
        for n in range(0, nmax + 1):
            J.append(dict(name="der:decode:%s:%dbytes" % (fn, n), kind="decode", fn=fn, n=n, timeout=1500, cost=4 ** n))
    encs = ["pub-der", "sec1-der", "pkcs8-der", "uncompressed", "compressed", "hybrid", "raw", "sk-raw"] + (["pub-der-explicit"] if tier != "quick" else [])
    for e in encs:
        L = ENC_LEN[e]
        step = 12
        for lo in range(0, L, step):
            J.append(dict(name="key:%s:positions%d-%d" % (e, lo, min(L, lo + step) - 1), kind="keypos", enc=e, lo=lo, hi=min(L, lo + step), timeout=1800, cost=200))
        J.append(dict(name="key:%s:truncate-extend" % e, kind="keycut", enc=e, timeout=1800, cost=300))
    for what in ("public", "private"):
        J.append(dict(name="key:roundtrip:%s" % what, kind="roundtrip", what=what, timeout=1800, cost=300))
        for cn in (["NIST521p"] if tier == "quick" else ["NIST192p", "NIST224p", "NIST384p", "NIST521p", "SECP256k1", "BRAINPOOLP256r1"]):
            J.append(dict(name="key:roundtrip:%s:%s" % (what, cn), kind="roundtrip", what=what, curve=cn, timeout=1800, cost=400))
    for k in (1, 16, 31, 32, 33):
        J.append(dict(name="key:sec1-der:private-octets-%dbytes" % k, kind="shortkey", k=k, timeout=900, cost=60))
    J.append(dict(name="key:pub-der:inner-extension", kind="inner", enc="pub-der", timeout=1800, cost=200))
    J.append(dict(name="key:sec1-der:inner-extension", kind="inner", enc="sec1-der", timeout=1800, cost=200))
    J.append(dict(name="key:pkcs8-der:inner-extension", kind="inner", enc="pkcs8-der", timeout=1800, cost=200))
    J.append(dict(name="bec2-header:raw-der-raw", kind="header", timeout=900, cost=100))
    J.append(dict(name="twin:decoder-discipline", kind="decode", fn="remove_integer", n=2, twin=True, expect="violated", timeout=300))
    return J


ENC_LEN = {"pub-der": 91, "sec1-der": 121, "pkcs8-der": 138, "uncompressed": 65, "compressed": 33, "hybrid": 65, "raw": 64, "sk-raw": 32, "pub-der-explicit": 311}
SECEXP = 0x00A1B2C3D4E5F60718293A4B5C6D7E8F9A0B1C2D3E4F5061728394A5B6C7D8E9


def _read_len(b, i):
    if b[i] < 0x80:
        return b[i], 1
    k = b[i] & 0x7F
    return int.from_bytes(b[i + 1: i + 1 + k], "big"), 1 + k


def tlv_spans(b):
    """(start, header length, content length, depth, chain of enclosing spans) of every constructed element of a DER
    byte string: SEQUENCE, context tags, and OCTET STRING / BIT STRING whose content is itself DER"""
    out = []

    def walk(lo, hi, depth, chain):
        i = lo
        while i < hi:
            tag = b[i]
            ln, ll = _read_len(b, i + 1)
            hl = 1 + ll
            me = (i, hl, ln)
            if tag == 0x03:
                out.append((i, hl, ln, depth, chain))
            elif tag == 0x30 or tag & 0xE0 == 0xA0:
                out.append((i, hl, ln, depth, chain))
                walk(i + hl, i + hl + ln, depth + 1, chain + [me])
            elif tag == 0x04 and ln > 2 and b[i + hl] == 0x30:
                out.append((i, hl, ln, depth, chain))
                walk(i + hl, i + hl + ln, depth + 1, chain + [me])
            i += hl + ln

    walk(0, len(b), 0, [])
    return out


def insert_at_end(b, start, hl, ln, chain):
    """the encoding with the length fields of the element at `start` and of all enclosing elements increased by one
    (the caller inserts the byte); None if a length field would change its size"""
    b = bytearray(b)
    for (s_, h_, l_) in chain + [(start, hl, ln)]:
        new = ref_len_octets(l_ + 1)
        if len(new) != h_ - 1:
            return None
        b[s_ + 1: s_ + h_] = new
    return bytes(b)


CURVE_OIDS = {"NIST192p": (1, 2, 840, 10045, 3, 1, 1), "NIST224p": (1, 3, 132, 0, 33), "NIST256p": (1, 2, 840, 10045, 3, 1, 7), "NIST384p": (1, 3, 132, 0, 34), "NIST521p": (1, 3, 132, 0, 35), "SECP256k1": (1, 3, 132, 0, 10), "BRAINPOOLP256r1": (1, 3, 36, 3, 3, 2, 8, 1, 1, 7)}


def ref_oid(arcs):
    """X.690 8.19 OBJECT IDENTIFIER, written independently of der.encode_oid"""
    subs = [40 * arcs[0] + arcs[1]] + list(arcs[2:])
    body = b""
    for v in subs:
        chunk = [v & 0x7F]
        v >>= 7
        while v:
            chunk.insert(0, 0x80 | (v & 0x7F))
            v >>= 7
        body += bytes(chunk)
    return b"\x06" + ref_len_octets(len(body)) + body


def tlv(tag, *parts):
    """tag || minimal definite length || content, content given as lists/bytes that may hold proxies"""
    content = []
    for p_ in parts:
        content += list(p_)
    return [tag] + list(ref_len_octets(len(content))) + content


def ref_key_encodings(curve_name, L, x, y, d=None):
    """SEC1 2.3.3 point strings, RFC 5480 SubjectPublicKeyInfo, RFC 5915 ECPrivateKey, RFC 5208 PrivateKeyInfo
    for coordinate / scalar octet lists x, y, d of length L"""
    oid_pub, oid_curve = ref_oid((1, 2, 840, 10045, 2, 1)), ref_oid(CURVE_OIDS[curve_name])
    point = [4] + list(x) + list(y)
    out = {"raw": list(x) + list(y), "uncompressed": point, "der": tlv(0x30, tlv(0x30, oid_pub, oid_curve), tlv(0x03, [0], point))}
    if d is not None:
        pubpart = tlv(0xA1, tlv(0x03, [0], point))
        out["sk-raw"] = list(d)
        out["sec1"] = tlv(0x30, [2, 1, 1], tlv(0x04, d), tlv(0xA0, oid_curve), pubpart)
        out["pkcs8"] = tlv(0x30, [2, 1, 0], tlv(0x30, oid_pub, oid_curve), tlv(0x04, tlv(0x30, [2, 1, 1], tlv(0x04, d), pubpart)))
    return out


def ref_len_octets(l):
    if l < 0x80:
        return bytes([l])
    body = l.to_bytes((l.bit_length() + 7) // 8, "big")
    return bytes([0x80 | len(body)]) + body


def _setup():
    from vlib import common

    common.setup_paths()
    from vlib.engineb import bv, symbytes

    root = os.path.join(common.REPO, "appnotes")
    symbytes.install(root, lambda m: m == PKG or m.startswith(PKG + ".ecdsa"))
    import importlib

    ec = importlib.import_module(PKG + ".ecdsa")
    compat = importlib.import_module(PKG + ".ecdsa._compat")
    compat.integer_types = tuple(compat.integer_types) + (bv.BV,)
    return bv, symbytes, ec


def _encodings(ec):
    """valid P-256 encodings of one fixed key pair, produced by the real (unrewritten values are concrete) encoders"""
    sk = ec.SigningKey.from_secret_exponent(SECEXP, ec.NIST256p)
    vk = sk.verifying_key
    return {
        "pub-der": vk.to_der(),
        "sec1-der": sk.to_der(),
        "pkcs8-der": sk.to_der(format="pkcs8"),
        "uncompressed": vk.to_string("uncompressed"),
        "compressed": vk.to_string("compressed"),
        "hybrid": vk.to_string("hybrid"),
        "raw": vk.to_string("raw"),
        "sk-raw": sk.to_string(),
        "pub-der-explicit": vk.to_der(curve_parameters_encoding="explicit"),
    }, sk, vk


def _decoder(ec, enc):
    if enc in ("pub-der", "pub-der-explicit"):
        return lambda b: ("vk", ec.VerifyingKey.from_der(b))
    if enc in ("sec1-der", "pkcs8-der"):
        return lambda b: ("sk", ec.SigningKey.from_der(b))
    if enc == "sk-raw":
        return lambda b: ("sk", ec.SigningKey.from_string(b, ec.NIST256p))
    return lambda b: ("vk", ec.VerifyingKey.from_string(b, ec.NIST256p))


NONDET_USED = [0]


def _install_curve_stubs(bv, ec):
    """over-approximating stubs for the arithmetic behind the codecs (see META.stubs)"""
    import importlib

    ell = importlib.import_module(PKG + ".ecdsa.ellipticcurve")
    nt = importlib.import_module(PKG + ".ecdsa.numbertheory")
    ecd = importlib.import_module(PKG + ".ecdsa.ecdsa")
    BV = bv.BV
    cnt = [0]
    NONDET_USED[0] = 0

    def nondet():
        cnt[0] += 1
        NONDET_USED[0] += 1
        return bool(BV.var("nondet%d" % cnt[0], 0, 1) == 1)

    def sym(*xs):
        return any(isinstance(x, BV) and not x.is_const() for x in xs)

    real_contains = ell.CurveFp.contains_point

    def contains_point(self, x, y):
        if sym(x, y) or sym(self.p(), self.a(), self.b()):
            return nondet()
        return real_contains(self, x, y)

    ell.CurveFp.contains_point = contains_point
    real_sqrt = nt.square_root_mod_prime

    def sqrt(a, p):
        if sym(a, p):
            if nondet():
                raise nt.SquareRootError("no square root (nondeterministic stub)")
            cnt[0] += 1
            return BV.var("root%d" % cnt[0], 0, _c(p) - 1 if not sym(p) else (1 << 521))
        return real_sqrt(a, p)

    def _c(x):
        return x.lo if isinstance(x, BV) else x

    nt.square_root_mod_prime = sqrt
    ell.numbertheory.square_root_mod_prime = sqrt
    real_mul = ell.PointJacobi.__mul__

    def mul(self, other):
        if sym(other):
            return self
        return real_mul(self, other)

    ell.PointJacobi.__mul__ = mul
    ell.PointJacobi.__rmul__ = mul
    real_valid = ecd.point_is_valid

    def point_is_valid(generator, x, y):
        if sym(x, y):
            curve = generator.curve()
            p = curve.p()
            if x < 0 or p <= x or y < 0 or p <= y:
                return False
            return nondet()
        return real_valid(generator, x, y)

    ecd.point_is_valid = point_is_valid
    return ell


def run_job(job):
    import z3

    bv, symbytes, ec = _setup()
    BV, SymBytes = bv.BV, symbytes.SymBytes
    der = ec.der
    kind = job["kind"]
    bv.STATS.update(queries=0, solver_s=0.0, paths=0)
    results = []  # (name, verdict, witness)

    def guarded(fn):
        """run fn; exceptions become values (explorer control exceptions pass)"""
        try:
            return ("ok", fn())
        except (bv.Inconclusive, bv.Infeasible):
            raise
        except Exception as e:  # noqa
            return ("exc", type(e).__name__, str(e)[:200])

    def explore(fn):
        ex = bv.Explorer(timeout_ms=120000)
        return ex.explore(fn, max_paths=200000)

    def decide(name, pc, claim, inputs):
        if isinstance(claim, bool):
            claim = z3.BoolVal(claim)
        r, m = bv.check(pc, claim)
        wit = None
        if r == "sat":
            wit = {k: _hexify(symbytes.concretize(v, m)) for k, v in inputs.items()}
        results.append((name, r, wit))

    def eqb(a, b):
        """z3 Bool: byte strings a and b (bytes / SymBytes) are equal"""
        a, b = list(a), list(b)
        if len(a) != len(b):
            return z3.BoolVal(False)
        cs = [(BV.lift(x) == BV.lift(y)).e for x, y in zip(a, b)]
        return z3.And(*cs) if cs else z3.BoolVal(True)

    def eqi(a, b):
        return (BV.lift(a) == BV.lift(b)).e

    if kind == "encint":
        k = job["k"]

        def fn():
            n = BV.var("n", 0, 256 ** k - 1)
            rest = symbytes.sym_bytes("rest", 2)
            out = guarded(lambda: der.encode_integer(n))
            back = guarded(lambda: der.remove_integer(out[1] + rest)) if out[0] == "ok" else None
            return n, rest, out, back

        for pc, (n, rest, out, back) in explore(fn):
            inputs = dict(n=n, rest=rest)
            if out[0] != "ok" or back is None or back[0] != "ok":
                decide("encode/decode raised %s" % ((out if out[0] != "ok" else back)[1:],), pc, False, inputs)
                continue
            o = list(out[1])
            L = len(o)
            # X.690 8.3 + 10.1: tag 02, minimal definite length, minimal two's complement, non-negative
            nv = None
            for cand in range(1, L):
                lo_ = ref_len_octets(cand)
                if 1 + len(lo_) + cand == L:
                    nv = cand
            if nv is None:
                decide("encode_integer length structure (len %d)" % L, pc, False, inputs)
                continue
            hdr = bytes([2]) + ref_len_octets(nv)
            val = o[len(hdr):]
            claim = z3.And(eqb(o[: len(hdr)], hdr), eqi(symbytes.be_value(val), n), (BV.lift(val[0]) < 0x80).e)
            if nv > 1:
                claim = z3.And(claim, z3.Not(z3.And(eqi(val[0], 0), (BV.lift(val[1]) < 0x80).e)))
            decide("encode_integer = X.690 minimal INTEGER", pc, claim, inputs)
            v, r = back[1]
            decide("remove_integer(encode_integer(n) || rest) = (n, rest)", pc, z3.And(eqi(v, n), eqb(r, rest)), inputs)
    elif kind == "enclen":
        k = job["k"]

        def fn():
            l = BV.var("l", 0, 256 ** k - 1)
            rest = symbytes.sym_bytes("rest", 2)
            out = guarded(lambda: der.encode_length(l))
            back = guarded(lambda: der.read_length(out[1] + rest)) if out[0] == "ok" else None
            return l, rest, out, back

        for pc, (l, rest, out, back) in explore(fn):
            inputs = dict(l=l, rest=rest)
            if out[0] != "ok" or back is None or back[0] != "ok":
                decide("encode/read length raised %s" % ((out if out[0] != "ok" else back)[1:],), pc, False, inputs)
                continue
            o = list(out[1]) if not isinstance(out[1], bytes) else list(out[1])
            if len(o) == 1:
                claim = z3.And(eqi(o[0], l), (BV.lift(l) < 0x80).e)
            else:
                m_ = len(o) - 1
                claim = z3.And(eqi(o[0], 0x80 | m_), eqi(symbytes.be_value(o[1:]), l), z3.Not(eqi(o[1], 0)), (BV.lift(l) >= 0x80).e)
            decide("encode_length = X.690 minimal definite length", pc, claim, inputs)
            v, used = back[1]
            decide("read_length(encode_length(l) || rest) = (l, consumed)", pc, z3.And(eqi(v, l), eqi(used, len(o))), inputs)
    elif kind == "container":
        what = job["what"]
        res_all = []
        for n in (0, 1, 2, 127, 128, 255, 256):
            def fn(n=n):
                # content: symbolic first/last bytes, concrete filler
                items = [(BV.var("c%d" % i, 0, 255) if i in (0, 1, n - 1) else (i * 7 + 1) & 0xFF) for i in range(n)]
                data = symbytes.mk(items)
                rest = symbytes.sym_bytes("rest", 1)
                if what == "octet":
                    out = guarded(lambda: der.encode_octet_string(data))
                    back = guarded(lambda: der.remove_octet_string(out[1] + rest)) if out[0] == "ok" else None
                    tag, body = 4, list(data)
                elif what == "bitstring":
                    out = guarded(lambda: der.encode_bitstring(data, 0))
                    back = guarded(lambda: der.remove_bitstring(out[1] + rest, 0)) if out[0] == "ok" else None
                    tag, body = 3, [0] + list(data)
                elif what == "sequence":
                    half = n // 2
                    out = guarded(lambda: der.encode_sequence(data[:half], data[half:]))
                    back = guarded(lambda: der.remove_sequence(out[1] + rest)) if out[0] == "ok" else None
                    tag, body = 0x30, list(data)
                else:
                    out = guarded(lambda: der.encode_constructed(1, data))
                    back = guarded(lambda: der.remove_constructed(out[1] + rest)) if out[0] == "ok" else None
                    tag, body = 0xA1, list(data)
                return data, rest, out, back, tag, body

            for pc, (data, rest, out, back, tag, body) in explore(fn):
                inputs = dict(data=data, rest=rest)
                if out[0] != "ok" or back is None or back[0] != "ok":
                    if what == "bitstring" and n == 0 and out[0] == "ok" and back[0] == "exc" and False:
                        continue
                    decide("%s n=%d raised %s" % (what, n, (out if out[0] != "ok" else back)[1:]), pc, False, inputs)
                    continue
                want = [tag] + list(ref_len_octets(len(body))) + body
                decide("encode %s (n=%d) = tag || minimal length || content" % (what, n), pc, eqb(out[1], want), inputs)
                got = back[1]
                if what == "constructed":
                    t_, b_, r_ = got
                    decide("remove_constructed inverts (n=%d)" % n, pc, z3.And(eqi(t_, 1), eqb(b_, data), eqb(r_, rest)), inputs)
                else:
                    b_, r_ = got
                    decide("remove %s inverts (n=%d)" % (what, n), pc, z3.And(eqb(b_, data), eqb(r_, rest)), inputs)
    elif kind == "oid":
        def fn():
            first = BV.var("first", 0, 2)
            second = BV.var("second", 0, 39)
            p1 = BV.var("p1", 0, (1 << 21) - 1)
            p2 = BV.var("p2", 0, 300)
            rest = symbytes.sym_bytes("rest", 1)
            f = 0 if first == 0 else 1 if first == 1 else 2
            out = guarded(lambda: der.encode_oid(f, second, p1, p2))
            back = guarded(lambda: der.remove_object(out[1] + rest)) if out[0] == "ok" else None
            return (f, second, p1, p2), rest, out, back

        for pc, (arcs, rest, out, back) in explore(fn):
            inputs = dict(arcs=list(arcs), rest=rest)
            if out[0] != "ok" or back is None or back[0] != "ok":
                decide("oid raised %s" % ((out if out[0] != "ok" else back)[1:],), pc, False, inputs)
                continue
            nums, r_ = back[1]
            ok = len(nums) == 4
            claim = z3.And(*[eqi(a, b) for a, b in zip(nums, arcs)], eqb(r_, rest)) if ok else z3.BoolVal(False)
            decide("remove_object(encode_oid(arcs) || rest) = (arcs, rest)", pc, claim, inputs)
            o = list(out[1])
            # base-128 minimality: no sub-identifier starts with 0x80; tag 06; short length
            decide("encode_oid: tag 06, length, no leading 0x80 octet", pc, z3.And(eqi(o[0], 6), eqi(o[1], len(o) - 2), z3.Not(eqi(o[2], 0x80))), inputs)
    elif kind == "decode":
        fname, n, twin = job["fn"], job["n"], job.get("twin")
        f = getattr(der, fname)

        def fn():
            buf = symbytes.sym_bytes("b", n) if n else b""
            if fname == "remove_bitstring":
                r = guarded(lambda: f(buf, None))
            else:
                r = guarded(lambda: f(buf))
            if fname == "read_length" and r[0] == "ok":
                r = ("ok", (r[1][0], symbytes._index(r[1][1])))  # number of consumed octets: decided on the path
            return buf, r

        for pc, (buf, r) in explore(fn):
            inputs = dict(buf=buf)
            if r[0] == "exc":
                if r[1] != "UnexpectedDER" or twin:
                    decide("%s raised %s: %s" % (fname, r[1], r[2]), pc, False, inputs)
                continue
            if fname == "remove_integer":
                v, rest = r[1]
                used = list(buf)[: len(buf) - len(rest)]
                # accepted => canonical: re-encoding the value gives the consumed octets (DER uniqueness)
                nv = len(used) - 2
                claim = z3.And(eqi(used[0], 2), eqi(used[1], nv), eqi(symbytes.be_value(used[2:]), v), (BV.lift(used[2]) < 0x80).e) if nv >= 1 else z3.BoolVal(False)
                if nv > 1:
                    claim = z3.And(claim, z3.Not(z3.And(eqi(used[2], 0), (BV.lift(used[3]) < 0x80).e)))
                decide("remove_integer accepts only the minimal encoding of its result", pc, claim, inputs)
            elif fname == "read_length":
                v, used = r[1]
                u = used
                o = list(buf)[:u]
                if u == 1:
                    claim = z3.And(eqi(o[0], v), (BV.lift(v) < 0x80).e)
                else:
                    claim = z3.And(eqi(o[0], 0x80 | (u - 1)), eqi(symbytes.be_value(o[1:]), v), z3.Not(eqi(o[1], 0)), (BV.lift(v) >= 0x80).e)
                decide("read_length accepts only the minimal encoding of its result", pc, claim, inputs)
    elif kind in ("keypos", "keycut", "header", "roundtrip", "inner", "shortkey"):
        ell = _install_curve_stubs(bv, ec)
        try:
            encs, sk0, vk0 = _encodings(ec)
        except (bv.Inconclusive, bv.Infeasible):
            raise
        except Exception as e:  # noqa
            # the encoders fail on an ordinary P-256 key: decided by replay
            return dict(verdict="violated", state="SAT", witness=dict(what="encoding an ordinary P-256 key pair raised %s: %s" % (type(e).__name__, e), inputs=dict(setup=True)), signature="C19:key:encoders-fail", message="encoders raised %s" % type(e).__name__, queries=0, solver_s=0.0, paths=0, symbolic_dims=0)
        if kind == "header":
            import importlib

            plug = importlib.import_module(PKG)
            from bec2format import crypto

            hdr = bytes.fromhex("3059301306072A8648CE3D020106082A8648CE3D03010703420004")

            def fn():
                raw = symbytes.sym_bytes("r", 64)
                k_ = guarded(lambda: plug.PublicEccKeyProxy.create_from_raw_fmt(raw))
                if k_[0] != "ok":
                    return raw, k_, None, None
                d = guarded(lambda: k_[1].to_der_fmt())
                r2 = guarded(lambda: k_[1].to_raw_bin_fmt())
                return raw, k_, d, r2

            accepted = 0
            for pc, (raw, k_, d, r2) in explore(fn):
                inputs = dict(raw=raw)
                if k_[0] == "exc":
                    if k_[1] != "ValueError":
                        decide("create_from_raw_fmt raised %s: %s" % (k_[1], k_[2]), pc, False, inputs)
                    continue
                accepted += 1
                if d[0] != "ok" or r2[0] != "ok":
                    decide("to_der_fmt/to_raw_bin_fmt raised %s" % ((d if d[0] != "ok" else r2)[1:],), pc, False, inputs)
                    continue
                pt = k_[1].public_key.pubkey.point
                decide("point of the loaded key = (x, y) of the raw bytes", pc, z3.And(eqi(pt.x(), symbytes.be_value(list(raw)[:32])), eqi(pt.y(), symbytes.be_value(list(raw)[32:]))), inputs)
                decide("to_der_fmt = 27-byte header || raw", pc, eqb(d[1], list(hdr) + list(raw)), inputs)
                decide("to_raw_bin_fmt = raw", pc, eqb(r2[1], raw), inputs)
            if accepted == 0:
                # the curve test is nondeterministic here, so a well-formed header||raw always has an accepting path
                results.append(("create_from_raw_fmt rejects every 64-byte raw key", "sat", dict(raw=_hexify(bytes(64)), rejects_all=True)))
            # the header is what the real encoder writes in front of an uncompressed P-256 point
            results.append(("VerifyingKey.to_der() of a P-256 key starts with the 27-byte header", "unsat" if encs["pub-der"][:27] == hdr and len(encs["pub-der"]) == 27 + 64 else "sat", dict(der=encs["pub-der"].hex())))
        elif kind == "roundtrip":
            CN = job.get("curve", "NIST256p")
            P256 = getattr(ec, CN)  # (named P256 for the default; any short-Weierstrass curve of the table)
            n_ = P256.order
            L = (P256.curve.p().bit_length() + 7) // 8  # octet length of a field element (SEC1 2.3.5), independent of the library's tables

            if job["what"] == "public":
                def fn():
                    raw = symbytes.sym_bytes("r", 2 * L)
                    if (8 * L) % P256.curve.p().bit_length():
                        # coordinates have spare leading bits (P-521): the first octet of x and y is constrained to the field size
                        top = P256.curve.p() >> (8 * (L - 1))
                        if not (list(raw)[0] <= top and list(raw)[L] <= top):
                            return raw, ("exc", "MalformedPointError", "skipped: leading octet beyond the field"), {}
                    out = {}
                    k_ = guarded(lambda: ec.VerifyingKey.from_string(raw, P256))
                    if k_[0] != "ok":
                        return raw, k_, out
                    vk = k_[1]
                    for e_ in ("raw", "uncompressed", "hybrid", "compressed"):
                        out[e_] = guarded(lambda: vk.to_string(e_))
                        if out[e_][0] == "ok" and e_ != "compressed":
                            out[e_ + "-back"] = guarded(lambda: ec.VerifyingKey.from_string(out[e_][1], P256))
                    out["der"] = guarded(lambda: vk.to_der())
                    if out["der"][0] == "ok":
                        out["der-back"] = guarded(lambda: ec.VerifyingKey.from_der(out["der"][1]))
                    ybit = 1 if (BV.lift(list(raw)[2 * L - 1]) & 1) == 1 else 0
                    return raw, k_, dict(out, ybit=ybit)

                acc = 0
                for pc, (raw, k_, out) in explore(fn):
                    inputs = dict(raw=raw)
                    if k_[0] == "exc":
                        if k_[1] not in ALLOWED:
                            decide("from_string(raw) raised %s: %s" % k_[1:], pc, False, inputs)
                        continue
                    acc += 1
                    x, y = list(raw)[:L], list(raw)[L:]
                    ybit = out.pop("ybit")
                    gen = ref_key_encodings(CN, L, x, y)
                    ref = {"raw": gen["raw"], "uncompressed": gen["uncompressed"], "hybrid": [6 + ybit] + x + y, "compressed": [2 + ybit] + x, "der": gen["der"]}
                    if CN == "NIST256p":
                        # the generic reference agrees with the literal OpenSSL prefix for P-256
                        assert bytes(gen["der"][:27]) == bytes.fromhex("3059301306072a8648ce3d020106082a8648ce3d03010703420004")
                    for e_, want in ref.items():
                        r = out[e_]
                        if r[0] != "ok":
                            decide("to_%s raised %s: %s" % ((e_,) + r[1:]), pc, False, inputs)
                            continue
                        decide("%s encoding = SEC1/X.509 reference" % e_, pc, eqb(r[1], want), inputs)
                        b_ = out.get(e_ + "-back")
                        if b_ is None:
                            continue
                        if b_[0] != "ok":
                            # re-decoding goes through the nondeterministic curve test again: only undocumented errors count
                            if b_[1] not in ALLOWED:
                                decide("decoding the %s encoding raised %s: %s" % ((e_,) + b_[1:]), pc, False, inputs)
                            continue
                        pt = b_[1].pubkey.point
                        decide("decode(encode_%s(key)) = key" % e_, pc, z3.And(eqi(pt.x(), symbytes.be_value(x)), eqi(pt.y(), symbytes.be_value(y))), inputs)
                if acc == 0:
                    # the curve test is nondeterministic here: a decoder that rejects every 2L-octet string rejects every key
                    results.append(("from_string rejects every %d-octet raw public key" % (2 * L), "sat", dict(raw=_hexify(bytes(2 * L)), rejects_all=True)))
            else:
                def fn():
                    d = BV.var("d", 0, 1 << (8 * L))
                    out = {}
                    k_ = guarded(lambda: ec.SigningKey.from_secret_exponent(d, P256))
                    if k_[0] != "ok":
                        return d, k_, out
                    sk = k_[1]
                    out["raw"] = guarded(lambda: sk.to_string())
                    out["sec1"] = guarded(lambda: sk.to_der())
                    out["pkcs8"] = guarded(lambda: sk.to_der(format="pkcs8"))
                    for e_ in ("raw", "sec1", "pkcs8"):
                        if out[e_][0] == "ok":
                            out[e_ + "-back"] = guarded(lambda: ec.SigningKey.from_string(out[e_][1], P256) if e_ == "raw" else ec.SigningKey.from_der(out[e_][1]))
                    return d, k_, out

                pub = list(bytes([4]) + sk0.verifying_key.to_string()) if False else None
                acc = 0
                for pc, (d, k_, out) in explore(fn):
                    inputs = dict(d=d)
                    in_range = z3.And((BV.lift(d) >= 1).e, (BV.lift(d) < n_).e)
                    if k_[0] == "exc":
                        if k_[1] not in ALLOWED:
                            decide("from_secret_exponent raised %s: %s" % k_[1:], pc, False, inputs)
                        else:
                            decide("scalar in 1..n-1 rejected", pc, z3.Not(in_range), inputs)
                        continue
                    acc += 1
                    decide("scalar outside 1..n-1 accepted", pc, in_range, inputs)
                    sk = k_[1]
                    # the public point written into the DER forms is whatever the (stubbed) multiplication gave: taken from the key
                    pp = sk.verifying_key.pubkey.point
                    px, py = list(int(pp.x()).to_bytes(L, "big")), list(int(pp.y()).to_bytes(L, "big"))
                    dd = BV.lift(d)
                    dbytes = [symbytes.byte_of(dd, L - 1 - i) for i in range(L)]
                    gen = ref_key_encodings(CN, L, px, py, dbytes)
                    ref = {"raw": gen["sk-raw"], "sec1": gen["sec1"], "pkcs8": gen["pkcs8"]}
                    if CN == "NIST256p":
                        assert bytes(gen["sec1"][:7]) == bytes.fromhex("30770201010420") and bytes(gen["pkcs8"][:36]) == bytes.fromhex("308187020100301306072a8648ce3d020106082a8648ce3d030107046d306b0201010420")
                    for e_, want in ref.items():
                        r = out[e_]
                        if r[0] != "ok":
                            decide("private %s encoding raised %s: %s" % ((e_,) + r[1:]), pc, False, inputs)
                            continue
                        got_ = list(r[1])
                        if e_ == "pkcs8" and len(got_) == len(want):
                            # PrivateKeyInfo.version: OpenSSL writes 0, this library writes 1 and reads both (RFC 5958 allows
                            # both numbers); the reference accepts either and fixes every other octet
                            vi = 1 + len(ref_len_octets(len(want) - 1 - len(ref_len_octets(len(want))))) + 2 if False else want.index(2, 1) + 2
                            decide("pkcs8 version octet is 0 or 1", pc, z3.Or(eqi(got_[vi], 0), eqi(got_[vi], 1)), inputs)
                            got_, want = got_[:vi] + got_[vi + 1:], want[:vi] + want[vi + 1:]
                        decide("private %s encoding = RFC 5915 / RFC 5208 reference" % e_, pc, eqb(got_, want), inputs)
                        b_ = out.get(e_ + "-back")
                        if b_[0] != "ok":
                            decide("decoding the private %s encoding raised %s: %s" % ((e_,) + b_[1:]), pc, False, inputs)
                            continue
                        decide("decode(encode_%s(d)) = d" % e_, pc, eqi(b_[1].privkey.secret_multiplier, d), inputs)
                if acc == 0:
                    results.append(("no accepting path (vacuous)", "unknown", None))
        elif kind == "shortkey":
            # SEC1 ECPrivateKey whose privateKey OCTET STRING has k octets (writers that drop leading zero octets, and one
            # octet too many): decoded scalar = big-endian value when in 1..n-1 and k <= 32, otherwise a documented error
            k = job["k"]
            n_ = ec.NIST256p.order

            def fn():
                kb = symbytes.sym_bytes("k", k)
                body = list(bytes.fromhex("020101")) + [4, k] + list(kb) + list(bytes.fromhex("a00a06082a8648ce3d030107"))
                buf = symbytes.mk([0x30, len(body)] + body)
                return kb, guarded(lambda: ec.SigningKey.from_der(buf))

            for pc, (kb, r) in explore(fn):
                inputs = dict(k=k, octets=kb)
                d = symbytes.be_value(kb)
                in_range = z3.And((d >= 1).e, (d < n_).e)
                if r[0] == "exc":
                    if r[1] not in ALLOWED:
                        decide("SEC1 key with %d private octets: %s: %s" % (k, r[1], r[2]), pc, False, inputs)
                    elif k <= 32:
                        decide("SEC1 key with %d private octets in range rejected" % k, pc, z3.Not(in_range), inputs)
                    continue
                decide("SEC1 key with %d private octets decodes to their big-endian value" % k, pc, z3.And(in_range, eqi(r[1].privkey.secret_multiplier, d)) if k <= 32 else z3.BoolVal(False), inputs)
        elif kind == "inner":
            enc = job["enc"]
            valid = encs[enc]
            dec = _decoder(ec, enc)
            orig = dec(valid)
            spans = tlv_spans(valid)
            for (start, hl, ln, depth, chain) in spans:
                m = insert_at_end(valid, start, hl, ln, chain)
                if m is None:
                    continue
                pos = start + hl + ln

                def fn(m=m, pos=pos):
                    NONDET_USED[0] = 0
                    v = BV.var("v", 0, 255)
                    buf = symbytes.mk(list(m[:pos]) + [v] + list(m[pos:]))
                    return v, guarded(lambda: dec(buf)), NONDET_USED[0]

                for pc, (v, r, nd) in explore(fn):
                    inputs = dict(enc=enc, insert_at=pos, v=v, base=m)
                    if r[0] == "exc":
                        if r[1] not in ALLOWED:
                            decide("%s with a byte inserted at the end of the element at %d: %s: %s" % (enc, start, r[1], r[2]), pc, False, inputs)
                        continue
                    if enc == "pub-der":
                        decide("pub-der with a byte inserted at the end of the element at %d accepted" % start, pc, False, inputs)
                    else:
                        kind_, key = r[1]
                        decide("%s with an inserted byte decodes to another key" % enc, pc, eqi(key.privkey.secret_multiplier, orig[1].privkey.secret_multiplier), inputs)
        else:
            enc = job["enc"]
            valid = encs[enc]
            dec = _decoder(ec, enc)
            orig = dec(valid)

            def numbers(kv):
                kind_, key = kv
                if kind_ == "vk":
                    pt = key.pubkey.point
                    return [pt.x(), pt.y()]
                return [key.privkey.secret_multiplier]

            if kind == "keypos":
                for pos in range(job["lo"], job["hi"]):
                    def fn(pos=pos):
                        NONDET_USED[0] = 0
                        v = BV.var("v", 0, 255)
                        buf = symbytes.mk(list(valid[:pos]) + [v] + list(valid[pos + 1:]))
                        r = guarded(lambda: dec(buf))
                        re_ = None
                        if r[0] == "ok" and enc in ("uncompressed", "hybrid", "raw"):
                            # same-length SEC1 spellings of a point: uncompressed and hybrid share 2L+1 octets
                            fmts = ("uncompressed", "hybrid") if enc != "raw" else ("raw",)
                            outs = [guarded(lambda f_=f_: r[1][1].to_string(f_)) for f_ in fmts]
                            bad_ = [o for o in outs if o[0] != "ok"]
                            re_ = bad_[0] if bad_ else ("ok", [o[1] for o in outs])
                        return v, r, NONDET_USED[0], re_, buf

                    for pc, (v, r, nd, re_, buf) in explore(fn):
                        inputs = dict(enc=enc, pos=pos, v=v)
                        if re_ is not None:
                            # an accepted point string is the SEC1 encoding of the decoded point (no second spelling is accepted)
                            if re_[0] != "ok":
                                decide("%s position %d: re-encoding raised %s" % (enc, pos, re_[1:]), pc, False, inputs)
                            else:
                                decide("%s position %d: accepted point string is not the encoding of the decoded point" % (enc, pos), pc, z3.Or(*[eqb(o, buf) for o in re_[1]]), inputs)
                        if r[0] == "exc":
                            if r[1] not in ALLOWED:
                                decide("%s position %d: %s: %s" % (enc, pos, r[1], r[2]), pc, False, inputs)
                            elif not nd:
                                # the unchanged encoding must not be rejected (paths through a nondeterministic stub excluded)
                                decide("%s position %d: valid encoding rejected" % (enc, pos), pc, z3.Not(eqi(v, valid[pos])), inputs)
                            continue
                        # accepted: with the original byte the decoded numbers are the original ones
                        nums, onums = numbers(r[1]), numbers(orig)
                        same = z3.And(*[eqi(a, b) for a, b in zip(nums, onums)])
                        if not nd or enc != "compressed":
                            # (compressed points: the square root is a nondeterministic stub, the decoded y is arbitrary)
                            decide("%s position %d: unchanged encoding decodes to the same key" % (enc, pos), pc, z3.Implies(eqi(v, valid[pos]), same), inputs)
            else:
                cuts = list(range(0, len(valid)))
                for cut in cuts:
                    r = guarded(lambda: dec(valid[:cut]))
                    if r[0] == "ok" or r[1] not in ALLOWED:
                        results.append(("%s truncated to %d bytes: %s" % (enc, cut, "accepted" if r[0] == "ok" else r[1:]), "sat", dict(enc=enc, cut=cut)))
                    else:
                        results.append(("truncate %d" % cut, "unsat", None))
                for extra in (1, 2):
                    def fn(extra=extra):
                        tail = symbytes.sym_bytes("t", extra)
                        return tail, guarded(lambda: dec(symbytes.mk(list(valid) + list(tail))))

                    for pc, (tail, r) in explore(fn):
                        inputs = dict(enc=enc, tail=tail)
                        if r[0] == "ok":
                            decide("%s extended by %d bytes accepted" % (enc, extra), pc, False, inputs)
                        elif r[1] not in ALLOWED:
                            decide("%s extended by %d bytes: %s: %s" % (enc, extra, r[1], r[2]), pc, False, inputs)
    else:
        raise ValueError(kind)

    bad = [r for r in results if r[1] == "sat"]
    unk = [r for r in results if r[1] not in ("sat", "unsat")]
    res = dict(queries=bv.STATS["queries"], solver_s=round(bv.STATS["solver_s"], 3), paths=bv.STATS["paths"], symbolic_dims=1, message="%d obligations, %d paths" % (len(results), bv.STATS["paths"]))
    if bad:
        res.update(verdict="violated", state="SAT", witness=dict(what=bad[0][0], inputs=bad[0][2]), signature="C19:" + _sig(job, bad[0][0]), message=bad[0][0] + " | " + res["message"])
    elif unk:
        res.update(verdict="inconclusive", state="UNKNOWN", message=str(unk[:3]))
    else:
        res.update(verdict="held", state="UNSAT")
    return res


def _sig(job, what):
    k = job["kind"]
    if k in ("keypos", "keycut"):
        exc = ""
        for e in ("IndexError", "ValueError", "TypeError", "AssertionError", "KeyError", "OverflowError", "accepted", "rejected"):
            if e in what:
                exc = ":" + e
                break
        return "key:%s%s" % (job["enc"], exc)
    if k == "decode":
        return "decode:%s" % job["fn"]
    return k


def _hexify(x):
    if isinstance(x, (bytes, bytearray)):
        return {"hex": bytes(x).hex()}
    if isinstance(x, (list, tuple)):
        return [_hexify(i) for i in x]
    return x


def _unhex(x):
    if isinstance(x, dict) and set(x) == {"hex"}:
        return bytes.fromhex(x["hex"])
    if isinstance(x, list):
        return [_unhex(i) for i in x]
    if isinstance(x, dict):
        return {k: _unhex(v) for k, v in x.items()}
    return x


def replay(job):
    """the witness on the unmodified package (normal import, no rewriting, no stubs)"""
    from vlib import common

    common.setup_paths()
    import importlib

    ec = importlib.import_module(PKG + ".ecdsa")
    der = ec.der
    if job.get("twin"):
        return dict(reproduced=True, signature="twin")
    w = _unhex(job.get("witness") or {})
    what, inp = w.get("what", ""), w.get("inputs") or {}
    kind = job["kind"]
    sig = "C19:" + _sig(job, what)

    def run(fn):
        try:
            return ("ok", fn())
        except Exception as e:  # noqa
            return ("exc", type(e).__name__, str(e)[:200])

    if kind == "encint":
        n, rest = inp.get("n", 0), inp.get("rest", b"")
        r = run(lambda: der.encode_integer(n))
        if r[0] != "ok":
            return dict(reproduced=True, signature=sig, detail="encode_integer(%d): %s" % (n, r[1:]))
        body = n.to_bytes(max(1, (n.bit_length() + 8) // 8), "big")
        want = b"\x02" + ref_len_octets(len(body)) + body
        b_ = run(lambda: der.remove_integer(r[1] + rest))
        bad = r[1] != want or b_ != ("ok", (n, rest))
        return dict(reproduced=bad, signature=sig, detail="encode_integer(%d) = %s, X.690: %s; decoded back: %r" % (n, r[1].hex(), want.hex(), b_))
    if kind == "enclen":
        l, rest = inp.get("l", 0), inp.get("rest", b"")
        r = run(lambda: der.encode_length(l))
        b_ = run(lambda: der.read_length(r[1] + rest)) if r[0] == "ok" else None
        bad = r[0] != "ok" or r[1] != ref_len_octets(l) or b_ != ("ok", (l, len(r[1])))
        return dict(reproduced=bad, signature=sig, detail="encode_length(%d) -> %r, read back %r" % (l, r, b_))
    if kind == "container":
        data, rest = inp.get("data", b""), inp.get("rest", b"")
        what_ = job["what"]
        if what_ == "octet":
            r = run(lambda: der.remove_octet_string(der.encode_octet_string(data) + rest))
            want = (data, rest)
            enc_ok = der.encode_octet_string(data) == b"\x04" + ref_len_octets(len(data)) + data
        elif what_ == "bitstring":
            r = run(lambda: der.remove_bitstring(der.encode_bitstring(data, 0) + rest, 0))
            want = (data, rest)
            enc_ok = run(lambda: der.encode_bitstring(data, 0)) == ("ok", b"\x03" + ref_len_octets(len(data) + 1) + b"\x00" + data)
        elif what_ == "sequence":
            h = len(data) // 2
            r = run(lambda: der.remove_sequence(der.encode_sequence(data[:h], data[h:]) + rest))
            want = (data, rest)
            enc_ok = der.encode_sequence(data[:h], data[h:]) == b"\x30" + ref_len_octets(len(data)) + data
        else:
            r = run(lambda: der.remove_constructed(der.encode_constructed(1, data) + rest))
            want = (1, data, rest)
            enc_ok = der.encode_constructed(1, data) == b"\xa1" + ref_len_octets(len(data)) + data
        return dict(reproduced=r != ("ok", want) or not enc_ok, signature=sig, detail="%s of %d bytes: %r" % (what_, len(data), r if r != ("ok", want) else "encoding differs from tag||length||content"))
    if kind == "oid":
        arcs, rest = inp.get("arcs", [1, 2, 840, 10045]), inp.get("rest", b"")
        r = run(lambda: der.remove_object(der.encode_oid(*arcs) + rest))
        return dict(reproduced=r != ("ok", (tuple(arcs), rest)), signature=sig, detail="OID %s -> %r" % (arcs, r))
    if kind == "decode":
        buf = inp.get("buf", b"")
        f = getattr(der, job["fn"])
        r = run(lambda: f(buf, None)) if job["fn"] == "remove_bitstring" else run(lambda: f(buf))
        if r[0] == "exc":
            return dict(reproduced=r[1] != "UnexpectedDER", signature=sig, detail="%s(%s) raised %s: %s" % (job["fn"], buf.hex(), r[1], r[2]))
        if job["fn"] == "remove_integer":
            v, rest = r[1]
            used = buf[: len(buf) - len(rest)]
            return dict(reproduced=der.encode_integer(v) != used, signature=sig, detail="remove_integer(%s) accepted %d although its DER encoding is %s" % (buf.hex(), v, der.encode_integer(v).hex()))
        if job["fn"] == "read_length":
            v, used = r[1]
            return dict(reproduced=ref_len_octets(v) != buf[:used], signature=sig, detail="read_length(%s) accepted %d in non-minimal form" % (buf.hex(), v))
        return dict(reproduced=False, detail="decoder returned %r" % (r,))
    if kind in ("keypos", "keycut", "inner", "header", "shortkey") or inp.get("setup"):
        r0 = run(lambda: _encodings(ec))
        if r0[0] == "exc":
            return dict(reproduced=True, signature=sig, detail="encoding an ordinary P-256 key pair raised %s: %s" % r0[1:])
    if kind in ("keypos", "keycut"):
        encs, sk0, vk0 = _encodings(ec)
        enc = inp.get("enc", job["enc"])
        valid = encs[enc]
        dec = _decoder(ec, enc)
        if "pos" in inp:
            m = valid[: inp["pos"]] + bytes([inp["v"]]) + valid[inp["pos"] + 1:]
            desc = "byte %d of the %s encoding set to 0x%02x" % (inp["pos"], enc, inp["v"])
        elif "cut" in inp:
            m = valid[: inp["cut"]]
            desc = "%s encoding truncated to %d bytes" % (enc, inp["cut"])
        else:
            m = valid + inp.get("tail", b"\x00")
            desc = "%s encoding extended by %s" % (enc, inp.get("tail", b"\x00").hex())
        r = run(lambda: dec(m))
        if r[0] == "exc":
            unchanged = m == valid
            return dict(reproduced=(r[1] not in ALLOWED) or unchanged, signature=sig, detail="%s: %s: %s (input %s)" % (desc, r[1], r[2], m.hex()))
        if "pos" in inp:
            if enc in ("uncompressed", "hybrid", "raw"):
                back = run(lambda: [r[1][1].to_string(f_) for f_ in ((("uncompressed", "hybrid") if enc != "raw" else ("raw",)))])
                if back[0] != "ok" or m not in back[1]:
                    return dict(reproduced=True, signature=sig, detail="%s: accepted, but the decoded point encodes as %r (a second spelling of a point string is accepted)" % (desc, back))
            return dict(reproduced=False, detail="%s: accepted" % desc)
        return dict(reproduced=True, signature=sig, detail="%s: accepted" % desc)
    if kind == "roundtrip":
        CN = job.get("curve", "NIST256p")
        P = getattr(ec, CN)
        L = (P.curve.p().bit_length() + 7) // 8
        sk_of = ec.SigningKey.from_secret_exponent
        n_ = P.order
        r0 = run(lambda: _encodings(ec))
        if r0[0] == "exc":
            return dict(reproduced=True, signature=sig, detail="encoding an ordinary P-256 key pair raised %s: %s" % r0[1:])

        def raw_point(k):
            pt = P.generator * k
            return int(pt.x()).to_bytes(L, "big") + int(pt.y()).to_bytes(L, "big")

        def pk8_ok(got, want):
            vi = want.index(2, 1) + 2
            return got == want or (len(got) == len(want) and got[:vi] + got[vi + 1:] == want[:vi] + want[vi + 1:] and got[vi] in (0, 1))

        if job["what"] == "public":
            cands = [inp["raw"]] if isinstance(inp.get("raw"), bytes) and len(inp["raw"]) == 2 * L else []
            # the curve test is nondeterministic in the symbolic run: real points, among them leading-zero coordinates
            i = 1
            while len(cands) < (600 if L <= 32 else 120):
                c = raw_point(i * 104729 + 7)
                i += 1
                if len(cands) < (300 if L <= 32 else 60) or c[0] == 0 or c[L] == 0:
                    cands.append(c)
                if i > (40000 if L <= 32 else 3000):
                    break
            for c in cands:
                r = run(lambda: ec.VerifyingKey.from_string(c, P))
                if r[0] == "exc":
                    if r[1] not in ALLOWED:
                        return dict(reproduced=True, signature=sig, detail="from_string(%s): %s: %s" % (c.hex(), r[1], r[2]))
                    continue
                vk = r[1]
                x, y = c[:L], c[L:]
                yb = y[-1] & 1
                gen = ref_key_encodings(CN, L, x, y)
                ref = {"raw": x + y, "uncompressed": b"\x04" + x + y, "hybrid": bytes([6 + yb]) + x + y, "compressed": bytes([2 + yb]) + x}
                for e_, want in ref.items():
                    g = run(lambda: vk.to_string(e_))
                    if g != ("ok", want):
                        return dict(reproduced=True, signature=sig, detail="%s: to_string(%s) of point %s -> %r, SEC1: %s" % (CN, e_, c.hex(), g, want.hex()))
                    b_ = run(lambda: ec.VerifyingKey.from_string(want, P).to_string())
                    if b_ != ("ok", c):
                        return dict(reproduced=True, signature=sig, detail="%s: from_string(%s encoding %s) -> %r" % (CN, e_, want.hex(), b_))
                spki = bytes(gen["der"])
                g = run(lambda: vk.to_der())
                b_ = run(lambda: ec.VerifyingKey.from_der(spki).to_string())
                if g != ("ok", spki) or b_ != ("ok", c):
                    return dict(reproduced=True, signature=sig, detail="%s: DER of point %s: to_der %r, from_der(reference %s) %r" % (CN, c.hex(), g, spki.hex(), b_))
            if cands and all(run(lambda: ec.VerifyingKey.from_string(c, P))[0] == "exc" for c in cands[:50]):
                return dict(reproduced=True, signature=sig, detail="%s: from_string rejects valid %d-octet raw public keys, e.g. %s" % (CN, 2 * L, cands[-1].hex()))
            return dict(reproduced=False, detail="no candidate of %d reproduced" % len(cands))
        ds = [inp["d"]] if isinstance(inp.get("d"), int) else []
        ds += [0, 1, 2, 255, 256, (1 << (8 * L - 8)) - 1, 1 << (8 * L - 8), n_ >> 1, n_ - 1, n_, n_ + 1, (1 << (8 * L)) - 1, 1 << (8 * L), SECEXP % n_]
        for d in ds:
            r = run(lambda: sk_of(d, P))
            inr = 1 <= d < n_
            if r[0] == "exc":
                if r[1] not in ALLOWED or inr:
                    return dict(reproduced=True, signature=sig, detail="%s: from_secret_exponent(%d): %s: %s" % (CN, d, r[1], r[2]))
                continue
            if not inr:
                return dict(reproduced=True, signature=sig, detail="%s: scalar %d outside 1..n-1 accepted" % (CN, d))
            sk = r[1]
            db = d.to_bytes(L, "big")
            pub = raw_point(d)
            gen = ref_key_encodings(CN, L, pub[:L], pub[L:], db)
            ref = {"raw": db, "sec1": bytes(gen["sec1"]), "pkcs8": bytes(gen["pkcs8"])}
            for e_, want in ref.items():
                g = run(lambda: sk.to_string() if e_ == "raw" else sk.to_der() if e_ == "sec1" else sk.to_der(format="pkcs8"))
                ok = g[0] == "ok" and (g[1] == want or (e_ == "pkcs8" and pk8_ok(g[1], want)))
                if not ok:
                    return dict(reproduced=True, signature=sig, detail="%s: private %s encoding of d=%d: %r, reference %s" % (CN, e_, d, g, want.hex()))
                b_ = run(lambda: (ec.SigningKey.from_string(want, P) if e_ == "raw" else ec.SigningKey.from_der(want)).privkey.secret_multiplier)
                if b_ != ("ok", d):
                    return dict(reproduced=True, signature=sig, detail="%s: decoding the reference %s encoding of d=%d -> %r" % (CN, e_, d, b_))
        return dict(reproduced=False, detail="no candidate reproduced")
    if kind == "shortkey":
        k = job["k"]
        kb = inp.get("octets", bytes(k))
        body = bytes.fromhex("020101") + bytes([4, k]) + kb + bytes.fromhex("a00a06082a8648ce3d030107")
        buf = bytes([0x30, len(body)]) + body
        d = int.from_bytes(kb, "big")
        r = run(lambda: ec.SigningKey.from_der(buf).privkey.secret_multiplier)
        ok_in = 1 <= d < ec.NIST256p.order and k <= 32
        if r[0] == "exc":
            bad = r[1] not in ALLOWED or ok_in
        else:
            bad = not ok_in or r[1] != d
        return dict(reproduced=bad, signature=sig, detail="SEC1 key %s (private octets %s = %d) -> %r" % (buf.hex(), kb.hex(), d, r))
    if kind == "inner":
        encs, sk0, vk0 = _encodings(ec)
        enc = job["enc"]
        dec = _decoder(ec, enc)
        base, pos, v = inp.get("base"), inp.get("insert_at"), inp.get("v", 0)
        if base is None:
            return dict(reproduced=False, detail="no witness")
        m = base[:pos] + bytes([v]) + base[pos:]
        r = run(lambda: dec(m))
        if r[0] == "exc":
            return dict(reproduced=r[1] not in ALLOWED, signature=sig, detail="%s with byte %02x inserted at %d (lengths adjusted): %s: %s (input %s)" % (enc, v, pos, r[1], r[2], m.hex()))
        if enc == "pub-der":
            return dict(reproduced=True, signature=sig, detail="public key DER with byte %02x inserted at %d (lengths adjusted) accepted: %s" % (v, pos, m.hex()))
        same = r[1][1].privkey.secret_multiplier == dec(encs[enc])[1].privkey.secret_multiplier
        return dict(reproduced=not same, signature=sig, detail="inserted byte changes the decoded private key")
    if kind == "header":
        import register_crypto_plugin as plug

        raw = inp.get("raw", bytes(64))
        hdr = bytes.fromhex("3059301306072A8648CE3D020106082A8648CE3D03010703420004")
        cands = [raw]
        # the symbolic run treats the curve test as nondeterministic: search real points with the witness's leading bytes
        sk = ec.SigningKey.from_secret_exponent
        for i in range(1, 400):
            cands.append(sk(i * 7919 + 1, ec.NIST256p).verifying_key.to_string())
        nacc = 0
        for c in cands:
            r = run(lambda: plug.PublicEccKeyProxy.create_from_raw_fmt(c))
            if r[0] == "exc":
                if r[1] != "ValueError":
                    return dict(reproduced=True, signature=sig, detail="create_from_raw_fmt(%s): %s: %s" % (c.hex(), r[1], r[2]))
                continue
            nacc += 1
            k_ = r[1]
            if k_.to_raw_bin_fmt() != c or k_.to_der_fmt() != hdr + c:
                return dict(reproduced=True, signature=sig, detail="raw key %s -> DER %s -> raw %s" % (c.hex(), k_.to_der_fmt().hex(), k_.to_raw_bin_fmt().hex()))
        if nacc == 0:
            return dict(reproduced=True, signature=sig, detail="create_from_raw_fmt rejects every one of %d valid raw P-256 public keys (header constant does not parse as SubjectPublicKeyInfo)" % (len(cands) - 1))
        enc_pub = sk(SECEXP, ec.NIST256p).verifying_key.to_der()
        return dict(reproduced=enc_pub[:27] != hdr, signature=sig, detail="VerifyingKey.to_der() prefix %s vs BEC2 header %s" % (enc_pub[:27].hex(), hdr.hex()))
    return dict(reproduced=False, detail="no replay for " + kind)
