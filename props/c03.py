"""C03 - written bytes have exactly the documented BF3/BEC2 container layout."""

PROPERTY = "C03"
FILES = ["bec2format/bf3file.py", "bec2format/bec2file.py", "bec2format/crypto.py", "appnotes/register_crypto_plugin/__init__.py", "appnotes/register_crypto_plugin/pyaes/blockfeeder.py"]
META = dict(
    level="other",
    engines="AC",
    files=FILES,
    technique="bounded symbolic execution (CrossHair/z3) of the real serialisers next to an independently written serialiser for the documented layout, byte-for-byte equality with start offset, key, payloads and tag values symbolic; text form by the AST-generated SMT lemmas of C01",
    level_text="Solver verdict over all offsets 0..65536, session keys, payload and tag-value bytes per enumerated shape: the real Bf3File.to_binary / Bec2File.to_binary output equals the independent layout model (directory size, absolute addresses, stored/declared lengths, payload MAC, tag list, entry MAC chained from IV = 1-based index, sentinel, contiguous payloads; BEC2 signature, TLV blocks, 00 00, body offset = header length).",
    level_note="Trusted: z3, CrossHair proxies, the 60-line independent layout model in this file (written from the documentation, own address computation, own CBC-MAC loop over the same uninterpreted block cipher), UF abstraction of AES-CBC (C16).",
    explanation="Bounded symbolic verification with CrossHair (z3): the real to_binary/dir_to_binary/get_raw_data/cmac/adapter code and an independent serialiser are run on the same symbolic inputs; equality of all output bytes is decided by the solver. Symmetric writer/reader errors (e.g. IV = 0-based index) are caught because the model encodes the documentation, not the reader.",
    functions=["Bf3File.to_binary", "Bf3File.dir_to_binary", "Bf3Component.get_raw_data", "bf3file.cmac", "Bec2File.to_binary", "Bec2File.pack_auth_blocks", "AES128Proxy.encrypt/mac", "crypto.pad", "write_bf3_format (AST)"],
    stubs=["S-cbc", "S-crc", "S-sha", "S-ecc"],
    assumptions=["AES-CBC = uninterpreted per-(key,prev) bijection shared by code and model"],
    bounds=dict(quick="C01 quick shape catalogue (payload 1..41, 0..3 components, 0..2 tags incl. limit shapes) plus encrypted-component shapes; offset symbolic in [0, 65536]; BEC2 headers with 0..3 blocks", thorough="C01 thorough catalogue; BEC2 headers for every ordered block subset"),
    outside=["offsets > 2^16", "shapes beyond the catalogue", "internal structure of auth-block payloads (C08, C09)"],
)


def jobs(tier, seed):
    from vlib.enginea import shapes

    J = []
    S = shapes.bf3_shapes(tier, seed)
    S.append([shapes.comp(17, [(0xC3, 1), (0xC2, 1)], enc=True)])
    S.append([shapes.comp(3, [(0xC3, 1)]), shapes.comp(32, [(0xC2, 1)], enc=True)])
    S.append([shapes.comp(16, [], enc=True), shapes.comp(5, [(0xC8, 2)])])
    S.append([shapes.comp(17, [(0xC2, 1)], enc=True), shapes.comp(5, [])])  # padded ciphertext followed by another payload
    S.append([shapes.comp(1, [], enc=True), shapes.comp(2, []), shapes.comp(33, [], enc=True)])
    for sh in S:
        J.append(dict(name="bf3:%s" % shapes.shape_name(sh), kind="bf3", shape=sh, timeout=900, cost=sum(c["plen"] for c in sh) + 40 * len(sh)))
    hdrs = [[], ["cust"], ["ecc"], ["update"], ["cust", "update"], ["update", "ecc", "cust"]]
    if tier == "thorough":
        from props import c02

        hdrs = [[]] + c02.orders()
    for hd in hdrs:
        J.append(dict(name="bec2:%s" % ("+".join(hd) or "noblocks"), kind="bec2", blocks=hd, shape=[shapes.comp(3, [(0xC3, 1)]), shapes.comp(17, [(0xC2, 1)], enc=True)], timeout=900, cost=300))
    J.append(dict(name="history:rewrite-after-tag-edit", kind="rewrite", shape=[shapes.comp(3, [(0xC3, 1)]), shapes.comp(17, [(0xC1, 1)])], timeout=900, cost=150))
    # the component list may hold the same object (or equal-valued copies) at several positions
    J.append(dict(name="bf3:same-object-twice", kind="bf3", shape=[shapes.comp(3, [(0xC3, 1)]), shapes.comp(17, [(0xC1, 1)])], order=[0, 1, 0], timeout=900, cost=200))
    J.append(dict(name="bf3:same-object-adjacent", kind="bf3", shape=[shapes.comp(17, [(0xC1, 1)], enc=True)], order=[0, 0], timeout=900, cost=200))
    J.append(dict(name="bf3:twin", kind="bf3", shape=[shapes.comp(17, [(0xC1, 1)])], twin=True, expect="violated", timeout=300))
    J.append(dict(name="bf3:model-sanity-iv0", kind="bf3", shape=[shapes.comp(17, [(0xC1, 1)]), shapes.comp(2, [])], wrong_model="iv0", expect="violated", timeout=300))
    for lemma in ("T1-lines", "T2-alphabet", "T5-io-literals"):
        J.append(dict(name="text:" + lemma, kind="text", lemma=lemma, timeout=600, cost=200))
    return J


def be(x, n):
    """big-endian bytes of a (possibly symbolic) non-negative int without bit operations"""
    return bytes([(x // (256 ** (n - 1 - i))) % 256 for i in range(n)])


def model_bf3(stubs, comps, offset, key, wrong=None):
    """independent serialiser: comps = [(stored_bytes, declared_len, [(tag, value)...])]"""

    def mac(data, iv):
        padded = data + bytes(-len(data) % 16)
        return stubs.model_cbc_encrypt(key, iv, padded)[-16:]

    sizes = [4 + 4 + 4 + 16 + 1 + sum(2 + len(v) for _, v in tags) + 16 for _, _, tags in comps]
    dir_len = sum(1 + s for s in sizes) + 1
    adr = offset + 4 + dir_len
    out = be(dir_len, 4)
    for i, (stored, declared, tags) in enumerate(comps):
        tlv = b""
        for t, v in tags:
            tlv += bytes([t, len(v)]) + v
        e = be(adr, 4) + be(len(stored), 4) + be(declared, 4) + mac(stored, None) + bytes([len(tlv)]) + tlv
        index = i if wrong == "iv0" else i + 1
        e += mac(e, be(index, 16))
        out += bytes([len(e)]) + e
        adr += len(stored)
    out += b"\x00"
    for stored, _, _ in comps:
        out += stored
    return out


def run_job(job):
    if job["kind"] == "text":
        from props import c01_text

        return c01_text.run(job["lemma"])
    from vlib.enginea import sym, runner, stubs

    stubs.load_repo()
    stubs.install_uf_cbc()
    stubs.install_uf_crc()
    stubs.install_uf_sha()
    UFPrivate, UFPublic = stubs.install_uf_ecc()
    from bec2format import bf3file as bf, bec2file as b2
    from bec2format.crypto import pad

    shape, twin = job["shape"], job.get("twin")

    def build(vals):
        comps, model = [], []
        key = vals["key"]
        for i, c in enumerate(shape):
            p = sym.sym_bytes("pay%d_" % i, c["plen"])
            al = sym.sym_int("al%d" % i, 1, c["plen"] + 1)
            vals["pay%d" % i], vals["al%d" % i] = p, al
            desc, tags = {}, []
            for t, (tid, tl) in enumerate(c["tags"]):
                v = sym.sym_bytes("tag%d_%d_" % (i, t), tl)
                vals["tag%d_%d" % (i, t)] = v
                desc[tid] = v
                tags.append((tid, v))
            comps.append(bf.Bf3Component(desc, p, al, encrypt_by_session_key=bool(c.get("enc"))))
            stored = stubs.model_cbc_encrypt(key, None, p + bytes(-len(p) % 16)) if c.get("enc") else p
            model.append((stored, al, tags))
        return comps, model

    if job["kind"] == "rewrite":
        def h():
            # the same object written, edited (tag list of a component grows/shrinks, count unchanged) and
            # written again: every write must be the layout of the object's *current* content
            key = sym.sym_bytes("key", 16)
            off = sym.sym_int("off", 0, 65537)
            vals = dict(key=key, off=off)
            comps, model = build(vals)
            runner.track(vals)
            f = bf.Bf3File({}, comps)
            first = f.to_binary(off, key)
            ok = first == model_bf3(stubs, model, off, key)
            newv = sym.sym_bytes("newtag", 5)
            comps[0].description[0xC8] = newv
            model[0] = (model[0][0], model[0][1], model[0][2] + [(0xC8, newv)])
            second = f.to_binary(off, key)
            ok = ok and second == model_bf3(stubs, model, off, key)
            del comps[1].description[0xC1]
            model[1] = (model[1][0], model[1][1], [])
            third = f.to_binary(off, key)
            ok = ok and third == model_bf3(stubs, model, off, key)
            if not ok:
                runner.record_witness(**vals)
            return ok

    elif job["kind"] == "bf3":
        def h():
            key = sym.sym_bytes("key", 16)
            off = sym.sym_int("off", 0, 65537)
            vals = dict(key=key, off=off)
            comps, model = build(vals)
            if job.get("order"):
                comps, model = [comps[i] for i in job["order"]], [model[i] for i in job["order"]]
            runner.track(vals)
            real = bf.Bf3File({}, comps).to_binary(off, key)
            want = model_bf3(stubs, model, off, key, wrong=job.get("wrong_model"))
            ok = len(real) == len(want) and real == want
            if twin:
                ok = False
            if not ok:
                runner.record_witness(**vals)
            return ok

    else:
        order = job["blocks"]

        def h():
            key = sym.sym_bytes("key", 16)
            vals = dict(key=key)
            comps, model = build(vals)
            code = sym.sym_bytes("code", 8)
            ck = sym.sym_bytes("ck", 16)
            vals.update(code=code, ck=ck)
            runner.track(vals)
            blocks, enc = [], []
            recipient = UFPrivate.generate()
            for k in order:
                if k == "cust":
                    blocks.append(b2.InitCustKeyAuthBlock())
                    enc.append(b2.SoftwareCustKeyEncryptor(ck))
                elif k == "ecc":
                    blocks.append(b2.InitEccAuthBlock(1))
                    enc.append(b2.EccEncryptor(1, recipient.public_key))
                else:
                    blocks.append(b2.UpdateAuthBlock(code, 9))
            real = b2.Bec2File(bf.Bf3File({}, comps), blocks, key).to_binary(enc)
            ok = real[:5] == b"BEC2\x00"
            pos = 5
            fl = lambda L: L + 4 + ((-(L + 5)) % 16) + 1  # documented container size
            explen = {"cust": fl(26), "ecc": 1 + 1 + 64 + 16, "update": fl(17)}
            for k, blk in zip(order, blocks):
                if not ok:
                    break
                ok = real[pos] == blk.tag and real[pos + 1] == explen[k]
                pos += 2 + explen[k]
            ok = ok and real[pos : pos + 2] == b"\x00\x00"
            pos += 2
            if ok:
                want = model_bf3(stubs, model, pos, key)
                ok = real[pos:] == want
            if not ok:
                runner.record_witness(**vals)
            return ok

    res = runner.run(h, job["timeout"] - 60, job["timeout"] - 60)
    res["symbolic_dims"] = 17 + sum(c["plen"] + sum(l for _, l in c["tags"]) for c in shape)
    if res["verdict"] == "violated":
        res["signature"] = "C03:layout"
    return res


def _unhex(w):
    if isinstance(w, dict):
        if set(w) == {"hex"}:
            return bytes.fromhex(w["hex"])
        return {k: _unhex(v) for k, v in w.items()}
    return w


def replay(job):
    """real AES: compare the real writer with the same layout model evaluated concretely"""
    import register_crypto_plugin  # noqa
    from register_crypto_plugin.pyaes import AESModeOfOperationCBC
    from bec2format import bf3file as bf, bec2file as b2

    if job.get("kind") == "text":
        from props import c01_text

        return c01_text.replay(job)
    if job.get("twin") or job.get("wrong_model"):
        return dict(reproduced=True, signature="twin")
    w = _unhex(job.get("witness") or {})
    if not w:
        return dict(reproduced=False, detail="no witness")

    class RealStubs:
        @staticmethod
        def model_cbc_encrypt(key, iv, data):
            m = AESModeOfOperationCBC(key, iv if iv is not None else bytes(16))
            return b"".join(m.encrypt(data[i : i + 16]) for i in range(0, len(data), 16))

    key = w["key"]
    comps, model = [], []
    for i, c in enumerate(job["shape"]):
        p, al = w["pay%d" % i], w["al%d" % i]
        tags = [(tid, w["tag%d_%d" % (i, t)]) for t, (tid, tl) in enumerate(c["tags"])]
        comps.append(bf.Bf3Component(dict(tags), p, al, encrypt_by_session_key=bool(c.get("enc"))))
        stored = RealStubs.model_cbc_encrypt(key, None, p + bytes(-len(p) % 16)) if c.get("enc") else p
        model.append((stored, al, tags))
    if job["kind"] == "rewrite":
        off = w.get("off", 0)
        f = bf.Bf3File({}, comps)
        f.to_binary(off, key)
        comps[0].description[0xC8] = b"12345"
        model[0] = (model[0][0], model[0][1], model[0][2] + [(0xC8, b"12345")])
        second = f.to_binary(off, key)
        want = model_bf3(RealStubs, model, off, key)
        return dict(reproduced=second != want, signature="C03:layout", detail="second write after adding a tag: payload offsets %s, documented layout %s" % (second[9:14].hex(), want[9:14].hex()))
    if job["kind"] == "bf3":
        off = w.get("off", 0)
        if job.get("order"):
            comps, model = [comps[i] for i in job["order"]], [model[i] for i in job["order"]]
        real = bf.Bf3File({}, comps).to_binary(off, key)
        want = model_bf3(RealStubs, model, off, key)
        return dict(reproduced=real != want, signature="C03:layout", detail="offset %d: real %s... model %s..." % (off, real.hex()[:160], want.hex()[:160]))
    blocks, enc = [], []
    for k in job["blocks"]:
        if k == "cust":
            blocks.append(b2.InitCustKeyAuthBlock())
            enc.append(b2.SoftwareCustKeyEncryptor(w.get("ck", bytes(16))))
        elif k == "ecc":
            blocks.append(b2.InitEccAuthBlock(1))
        else:
            blocks.append(b2.UpdateAuthBlock(w.get("code", bytes(8)), 9))
    real = b2.Bec2File(bf.Bf3File({}, comps), blocks, key).to_binary(enc)
    pos = 5
    ok = real[:5] == b"BEC2\x00"
    for blk in blocks:
        ok = ok and real[pos] == blk.tag
        pos += 2 + real[pos + 1]
    ok = ok and real[pos : pos + 2] == b"\x00\x00"
    pos += 2
    want = model_bf3(RealStubs, model, pos, key)
    ok = ok and real[pos:] == want
    return dict(reproduced=not ok, signature="C03:layout", detail="bec2 header/body mismatch" if not ok else "")
