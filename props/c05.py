"""C05 - the reader accepts a binary exactly when it is well-formed and authentic."""
import io
import itertools

PROPERTY = "C05"
FILES = ["bec2format/bf3file.py", "bec2format/bytes_reader.py", "appnotes/register_crypto_plugin/__init__.py"]
META = dict(
    level="other",
    engines="A",
    files=FILES,
    technique="bounded symbolic execution of the real reader (CrossHair/z3) on skeleton binaries re-serialised field by field with one field (quick) or two fields (thorough) symbolic over their full range and MACs recomputed under the ideal-MAC model; acceptance compared with an independent strict validator of the documented layout",
    level_text="Solver verdict over all values of the edited field(s) (e.g. all 2^32 directory sizes, addresses, lengths; all 256 values of one-byte fields) and all payload/tag/key bytes of the skeleton: the real reader accepts iff the independent validator accepts, and on acceptance returns exactly the fields' content.",
    level_note="Assumptions A1/A2 (ideal MAC, see C04). Trusted: z3, CrossHair proxies, S-io, the field-level serialiser and the strict validator in this file (written from the property statement; the serialiser is cross-checked against the real writer by C03's byte equality and by a start-up self-test here).",
    explanation="Bounded symbolic verification with CrossHair (z3). Fields edited: directory size, entry length, payload address, stored length, declared length (>= 1), description length, tag id, tag length, sentinel, IV index of the entry MAC, trailing bytes, entry order, duplicate tag. Only structure is in question: every MAC in the edited binary is computed by the MAC oracle in writer mode over the edited bytes.",
    functions=["Bf3File.read_file", "Bf3File.from_binary", "Bf3File.dir_from_binary", "BytesReader.read/read_int/eof/ensure_eof", "bf3file.cmac", "AES128Proxy.mac"],
    stubs=["S-io", "S-cbc", "S-mac-ideal", "text-layer bypass"],
    assumptions=["A1/A2 ideal MAC", "declared length >= 1 (the object model cannot represent 0)"],
    bounds=dict(quick="skeletons: 1 component (5-byte payload, 1 tag of 2 bytes) and 2 components (3 bytes/1 tag + 4 bytes/2 tags); one edited field at a time over its full value range: every field of the 1-component skeleton (tag ids over 11 boundary values, tag-list fields with concrete tag values) and the address/length/index fields of the 2-component skeleton; structural edits: swap entries, duplicate tag, 1-2 trailing bytes", thorough="+ every single field of the 2-component skeleton incl. tag ids over their full range, directory size and entry length; pairs of fields edited together: all pairs among directory size, entry length, address, stored/declared length, description length, tag length of the 1-component skeleton (except entry/description length with a tag length: not confirmed within an hour) and address x stored x declared length of the first entry of the 2-component skeleton; 65 jobs, about 55 min on 16 cores"),
    outside=["three or more simultaneously edited fields", "unstructured binaries", "encrypted components (C06)"],
)

SKELS = {
    "one": [dict(plen=5, tags=[(0xC1, 2)])],
    "two": [dict(plen=3, tags=[(0xC3, 1)]), dict(plen=4, tags=[(0xC1, 1), (0xC8, 2)])],
    "same2": [dict(plen=3, tags=[(0xC3, 1)]), dict(plen=3, tags=[(0xC3, 1)])],
    "dup": [dict(plen=2, tags=[(0xC1, 1), (0xC8, 1)])],
    "dup0": [dict(plen=2, tags=[(0xC1, 0), (0xC8, 1)])],  # first tag value empty (falsy)
    "dup00": [dict(plen=2, tags=[(0xC1, 0), (0xC8, 0)])],
}
ENTRY_FIELDS = ["entry_len", "adr", "total", "actual", "desc_len", "tag_id0", "tag_len0", "iv_index"]
GLOBAL_FIELDS = ["dir_size", "sentinel"]
RANGE = dict(dir_size=2 ** 32, entry_len=256, adr=2 ** 32, total=2 ** 32, actual=2 ** 32, desc_len=256, tag_id0=256, tag_len0=256, sentinel=256, iv_index=2 ** 32, tag_id1=256, tag_len1=256)


def all_fields(skel):
    F = list(GLOBAL_FIELDS)
    for i, c in enumerate(SKELS[skel]):
        for f in ENTRY_FIELDS:
            F.append("%s@%d" % (f, i))
        if len(c["tags"]) > 1:
            F += ["tag_id1@%d" % i, "tag_len1@%d" % i]
    return F


def jobs(tier, seed):
    J = []
    for skel in ("one", "two"):
        for f in all_fields(skel):
            base = f.split("@")[0]
            tagish = base.startswith("tag_") or base in ("desc_len", "entry_len")
            if tier == "quick" and skel == "two" and (base.startswith("tag_") or base in ("dir_size", "entry_len", "sentinel")):
                continue  # thorough only (5-20 min each: hashed symbolic tag ids are enumerated 256-way, dir_size/entry_len fork over every split of the directory)
            # quick: jobs whose edit turns tag *values* into tag ids/lengths run with concrete tag values
            J.append(dict(name="field:%s:%s" % (skel, f), kind="fields", skel=skel, fields=[f], tier=tier, concrete_tagvals=bool(tier == "quick" and tagish), timeout=3400 if tier == "quick" else 7000, cost=600 if tagish else 200))
        J.append(dict(name="struct:%s:trailing" % skel, kind="trailing", skel=skel, timeout=900, cost=50))
        J.append(dict(name="struct:%s:unedited" % skel, kind="fields", skel=skel, fields=[], timeout=600, cost=20))
    J.append(dict(name="struct:two:swap-entries", kind="swap", skel="two", timeout=900, cost=100))
    J.append(dict(name="struct:same2:payload-mac-copied-from-earlier-entry", kind="pmaccopy", skel="same2", timeout=900, cost=100))
    for sk in ("dup", "dup0", "dup00"):
        for f in ("tag_id1@0", "tag_id0@0"):
            J.append(dict(name="struct:%s:repeated-tag:%s" % (sk, f), kind="fields", skel=sk, fields=[f], tier="quick", concrete_tagvals=True, timeout=1500, cost=100))
    J.append(dict(name="vacuity:accept-reachable", kind="fields", skel="one", fields=[], twin=True, expect="violated", timeout=300))
    if tier == "thorough":
        # pairs of fields edited together: every pair of the one-component skeleton that involves a length, offset or MAC
        # field, and the cross-entry pairs of the two-component skeleton that involve the first entry's lengths/offset
        # (the full pair matrices - 90 jobs of 5-50 min - did not fit a run that can be repeated; sized by wall time)
        F1 = all_fields("one")
        key1 = [f for f in F1 if any(k in f for k in ("len", "adr", "total", "actual", "size"))]
        for a, b in itertools.combinations(F1, 2):
            if a in key1 and b in key1 and not ("tag_len0" in b and a.split("@")[0] in ("entry_len", "desc_len")):
                # (entry_len / desc_len together with a tag length: 37 min resp. not confirmed within 56 min - outside the tier)
                J.append(dict(name="pair:one:%s+%s" % (a, b), kind="fields", skel="one", fields=[a, b], tier=tier, timeout=3400, cost=600))
        F2 = [f for f in all_fields("two") if f.endswith("@0") or "@" not in f]
        key2 = [f for f in F2 if any(k in f for k in ("total", "actual", "adr"))]
        for a, b in itertools.combinations(F2, 2):
            if a in key2 and b in key2:
                J.append(dict(name="pair:two:%s+%s" % (a, b), kind="fields", skel="two", fields=[a, b], tier=tier, timeout=3400, cost=800))
    return J


def be(x, n):
    return bytes([(x // (256 ** (n - 1 - i))) % 256 for i in range(n)])


def split(n, hi):
    """concrete int in [0, hi] equal to n, or None when n > hi (forks)"""
    for c in range(hi + 1):
        if n == c:
            return c
    return None


def serialise(mac, key, comps, edits, sig=b"BF3\x00\x00", trailing=b"", order=None):
    """field-level serialiser.  comps: [(payload, actual, [(tag, value)])];
    edits: {field@i: value}.  Returns (binary, canonical field values)."""
    canon = {}
    ents = []
    sizes = [12 + 16 + 1 + sum(2 + len(v) for _, v in tags) + 16 for _, _, tags in comps]
    dir_len = sum(1 + s for s in sizes) + 1
    adr = len(sig) + 4 + dir_len
    body = b""
    idxs = list(range(len(comps))) if order is None else order
    # 'entry order' edit: directory entries permuted (entry MACs recomputed for their new
    # index) while payloads and the addresses assigned to them stay in file order
    adrs, a0 = {}, adr
    for i in range(len(comps)):
        adrs[i] = a0
        a0 += len(comps[i][0])
        body += comps[i][0]
    for pos, i in enumerate(idxs):
        payload, actual, tags = comps[i]
        adr = adrs[i]

        def fld(name, val):
            canon["%s@%d" % (name, i)] = val
            return edits.get("%s@%d" % (name, i), val)

        tlv = b""
        for t, (tid, val) in enumerate(tags):
            tlv += bytes([fld("tag_id%d" % t, tid), fld("tag_len%d" % t, len(val))]) + val
        pm_src = edits.get("pmac_from@%d" % i)
        pm = mac(key, None, comps[pm_src][0] if pm_src is not None else payload)
        e = be(fld("adr", adr), 4) + be(fld("total", len(payload)), 4) + be(fld("actual", actual), 4) + pm + bytes([fld("desc_len", len(tlv))]) + tlv
        e += mac(key, be(fld("iv_index", pos + 1), 16), e)
        ents.append(bytes([fld("entry_len", len(e))]) + e)
    canon["dir_size"], canon["sentinel"] = dir_len, 0
    d = b"".join(ents) + bytes([edits.get("sentinel", 0)])
    return sig + be(edits.get("dir_size", dir_len), 4) + d + body + trailing, canon


def validate(mac, key, b, sig_len=5):
    """independent strict validator of the documented layout; returns the list of
    (payload, actual, [(tag, value)]) or None.  Forks on every length it reads."""
    pos = sig_len
    if len(b) < pos + 4:
        return None
    dsz = b[pos] * 2 ** 24 + b[pos + 1] * 2 ** 16 + b[pos + 2] * 256 + b[pos + 3]
    pos += 4
    dsz = split(dsz, len(b) - pos)
    if dsz is None:
        return None
    d = b[pos : pos + dsz]
    body = pos + dsz
    i, idx, ents = 0, 1, []
    while True:
        if i >= len(d):
            return None
        el = split(d[i], len(d) - i - 1)
        i += 1
        if el is None:
            return None
        if el == 0:
            break
        e = d[i : i + el]
        i += el
        if el < 12 + 16 + 1 + 16:
            return None
        adr = e[0] * 2 ** 24 + e[1] * 2 ** 16 + e[2] * 256 + e[3]
        total = e[4] * 2 ** 24 + e[5] * 2 ** 16 + e[6] * 256 + e[7]
        actual = e[8] * 2 ** 24 + e[9] * 2 ** 16 + e[10] * 256 + e[11]
        if actual > total:
            return None
        dl = split(e[28], el - 29 - 16)
        if dl is None or 29 + dl + 16 != el:
            return None
        tl, j, tags, seen = e[29 : 29 + dl], 0, [], []
        while j < dl:
            if j + 2 > dl:
                return None
            tid = tl[j]
            ln = split(tl[j + 1], dl - j - 2)
            if ln is None:
                return None
            for s in seen:
                if s == tid:
                    return None
            seen.append(tid)
            tags.append((tid, tl[j + 2 : j + 2 + ln]))
            j += 2 + ln
        if e[el - 16 :] != mac(key, be(idx, 16), e[: el - 16]):
            return None
        ents.append((adr, total, actual, e[12:28], tags))
        idx += 1
    if i != len(d):
        return None
    p, out = body, []
    for adr, total, actual, pmac, tags in ents:
        if adr != p:
            return None
        t = split(total, len(b) - p)
        if t is None:
            return None
        payload = b[p : p + t]
        if len(payload) == 0 or mac(key, None, payload) != pmac:
            return None
        out.append((payload, actual, tags))
        p += t
    if p != len(b):
        return None
    return out


def run_job(job):
    import z3
    from vlib.enginea import sym, runner, stubs

    stubs.load_repo()
    stubs.install_uf_cbc()
    stubs.install_text_bypass()
    M = stubs.install_ideal_mac()
    from bec2format import bf3file as bf
    from bec2format.crypto import create_AES128

    skel, kind, twin = SKELS[job["skel"]], job["kind"], job.get("twin")

    def mac(key, iv, data):
        return create_AES128(key, iv).mac(data)

    # fields whose edit makes the parser walk over MAC bytes as if they were TLV structure: with
    # symbolic MAC bytes every hashed tag id is enumerated (256-way); those jobs run with concrete,
    # pairwise distinct MAC tokens (one MAC valuation; recorded as level 'mac-tokens')
    TOKENS = any(f.split("@")[0] in ("desc_len", "tag_len0", "tag_len1", "entry_len", "dir_size", "sentinel") for f in job.get("fields", []))

    def h():
        M.reset()
        M.tokens = TOKENS
        key = sym.sym_bytes("key", 16)
        vals = dict(key=key)
        comps = []
        for i, c in enumerate(skel):
            p = sym.sym_bytes("pay%d_" % i, c["plen"])
            if job.get("concrete_tagvals"):
                tags = [(tid, bytes([0x11 * (t + 1)]) * tl) for t, (tid, tl) in enumerate(c["tags"])]
            else:
                tags = [(tid, sym.sym_bytes("tag%d_%d_" % (i, t), tl)) for t, (tid, tl) in enumerate(c["tags"])]
            comps.append((p, c["plen"], tags))
            vals["pay%d" % i] = p
        edits, trailing, order = {}, b"", None
        if kind == "fields":
            for f in job["fields"]:
                base = f.split("@")[0]
                lo = 1 if base == "actual" else 0
                edits[f] = sym.sym_int("ed_" + f.replace("@", "_"), lo, RANGE[base])
                if base.startswith("tag_id"):
                    # a component tagged ENC is an encrypted component: C06's subject, outside C05
                    sym.assume(sym.expr_of(edits[f]) != 0xC2)
                    if job.get("tier") == "quick":
                        # quick: boundary tag ids (a hashed symbolic id is enumerated value by value)
                        sym.assume(z3.Or([sym.expr_of(edits[f]) == v for v in (0x00, 0x01, 0x7F, 0x80, 0xC0, 0xC1, 0xC3, 0xC8, 0xC9, 0xFE, 0xFF)]))
                vals["ed_" + f] = edits[f]
        elif kind == "trailing":
            n = sym.sym_int("ntrail", 0, 3)
            k = split(n, 2)
            trailing = sym.sym_bytes("trail", k)
            vals["trailing"] = trailing
        elif kind == "swap":
            order = [1, 0]
        elif kind == "pmaccopy":
            # entry 1 carries the (authentic) payload MAC of entry 0 although its payload is different
            edits["pmac_from@1"] = 0
        M.mode = "writer"
        binary, canon = serialise(mac, key, comps, edits, trailing=trailing, order=order)
        vals["binary"] = binary
        M.mode = "reader"
        M.windows_of = binary
        want = validate(mac, key, binary)
        carrier = stubs.Carrier()
        carrier.raw, carrier.comments = binary, {}
        try:
            g = bf.Bf3File.read_file(carrier, True, key)
        except (bf.Bf3FileFormatError, ValueError):
            g = None
        ok = True
        why = ""
        if (g is None) != (want is None):
            ok, why = False, "reader %s, validator %s" % ("rejects" if g is None else "accepts", "rejects" if want is None else "accepts")
        elif g is not None:
            if len(g.components) != len(want):
                ok, why = False, "component count"
            else:
                for gc, (payload, actual, tags) in zip(g.components, want):
                    if not (gc.blob == payload and gc.actual_len == actual and list(gc.description.items()) == tags):
                        ok, why = False, "returned content differs from the fields"
        # self-check of the validator for single-field edits: valid iff the field has its canonical value
        if ok and kind == "fields" and len(job["fields"]) == 1:
            f = job["fields"][0]
            is_canon = edits[f] == canon[f]
            if f.split("@")[0] not in ("dir_size", "adr", "total", "iv_index", "sentinel", "entry_len"):
                pass  # other fields have several well-formed values (declared length 1..stored, other tag ids, re-split tag lists)
            elif is_canon != (want is not None):
                ok, why = False, "validator self-check: canonical=%s accepted=%s" % (is_canon, want is not None)
        if ok and kind == "swap" and want is not None:
            ok, why = False, "swapped entries accepted by validator"
        if twin and g is not None:
            ok, why = False, "twin"
        if not ok:
            runner.record_witness(why=why, **vals)
        return ok

    res = runner.run(h, job["timeout"] - 60, job["timeout"] - 60)
    res["symbolic_dims"] = 16 + sum(c["plen"] for c in skel) + len(job.get("fields", []))
    res["levels"] = {"mac": "tokens" if TOKENS else "symbolic"}
    if res["verdict"] == "violated":
        why = str((res.get("witness") or {}).get("why", ""))
        res["signature"] = "C05:" + ("accepts-malformed" if "reader accepts" in why else "rejects-wellformed" if "reader rejects" in why else "content" if "content" in why or "count" in why else "harness")
        res["message"] = why + " | " + str(res.get("message"))
    return res


def _unhex(w):
    if isinstance(w, dict):
        if set(w) == {"hex"}:
            return bytes.fromhex(w["hex"])
        return {k: _unhex(v) for k, v in w.items()}
    return w


def replay(job):
    """real AES: rebuild the edited binary with the same field-level serialiser
    (MACs by the real adapter), run the real reader and the strict validator
    concretely."""
    import register_crypto_plugin  # noqa
    from bec2format import bf3file as bf
    from bec2format.crypto import create_AES128

    if job.get("twin"):
        return dict(reproduced=True, signature="twin")
    w = _unhex(job.get("witness") or {})
    skel, kind = SKELS[job["skel"]], job["kind"]
    key = w.get("key", bytes(16))

    def mac(k, iv, data):
        return create_AES128(k, iv).mac(data)

    comps = []
    for i, c in enumerate(skel):
        comps.append((w.get("pay%d" % i, bytes(c["plen"])), c["plen"], [(tid, bytes([0x11 * (t + 1)]) * tl) for t, (tid, tl) in enumerate(c["tags"])]))
    edits = {k[3:]: v for k, v in w.items() if k.startswith("ed_")}
    trailing = w.get("trailing", b"") if kind == "trailing" else b""
    order = [1, 0] if kind == "swap" else None
    if kind == "pmaccopy":
        edits["pmac_from@1"] = 0
        comps[1] = (bytes(b ^ 0x55 for b in comps[0][0]), comps[1][1], comps[1][2]) if comps[1][0] == comps[0][0] else comps[1]
    binary, canon = serialise(mac, key, comps, edits, trailing=trailing, order=order)
    want = validate(mac, key, binary)
    try:
        g = bf.Bf3File.read_file(io.StringIO("\n" + binary.hex().upper() + "\n"), True, key)
    except (bf.Bf3FileFormatError, ValueError):
        g = None
    except Exception as e:
        return dict(reproduced=True, signature="C05:harness", detail="reader raised %s: %s" % (type(e).__name__, e))
    if (g is None) != (want is None):
        return dict(reproduced=True, signature="C05:" + ("accepts-malformed" if g is not None else "rejects-wellformed"), detail="edits %s: reader %s, strict validator %s; binary %s" % (edits, "accepts" if g is not None else "rejects", "accepts" if want is not None else "rejects", binary.hex()))
    if g is not None:
        for gc, (payload, actual, tags) in zip(g.components, want):
            if not (gc.blob == payload and gc.actual_len == actual and list(gc.description.items()) == tags):
                return dict(reproduced=True, signature="C05:content", detail="edits %s: returned %r, fields say %r" % (edits, gc, (payload, actual, tags)))
    return dict(reproduced=False, detail="reader and validator agree on the concrete binary")
