"""C08 - AES auth-block container: exact framing, exact inverse, errors."""
import ast
import os

PROPERTY = "C08"
FILES = ["bec2format/bec2file.py", "appnotes/register_crypto_plugin/__init__.py", "appnotes/register_crypto_plugin/pyaes/blockfeeder.py", "bec2format/bytes_reader.py"]
META = dict(
    level="other",
    engines="A",
    files=FILES,
    technique="bounded symbolic execution of the real encryptor classes (CrossHair/z3) per payload length with payload, key, security code, customer key and its position symbolic; AES-CBC, CRC and SHA-256 as uninterpreted functions; padding formula decided for symbolic length from the AST (z3 LIA)",
    level_text="Solver verdict over all payload bytes, keys, codes, customer keys and positions for every payload length 0..253: frame layout as decrypted by an independent CBC model over the same UF, exact inverse, rejection of wrong marker/CRC, customer-key overlay/verify/blank, key derivation from the security code.",
    level_note="Trusted: z3, CrossHair proxies, UF abstractions (AES-CBC: C16, CRC: C15, SHA-256: hashlib). 'Frame made under another key is rejected' is claimed in its structural form: acceptance implies correct marker and CRC of the decrypted frame (an arbitrary frame stands for decryption under any other key).",
    explanation="Bounded symbolic verification with CrossHair (z3): real SoftwareCustKeyEncryptor / ConfigSecurityCodeEncryptor .encrypt/.decrypt, real adapter and block feeder, real BytesReader; per concrete payload length all payload/key bytes are solver variables, CRC is a free 16-bit UF value so every value of each CRC byte (00 included) is inside the quantification.",
    functions=["AesEncryptorMixin.encrypt", "AesEncryptorMixin.decrypt", "SoftwareCustKeyEncryptor.encrypt/decrypt", "ConfigSecurityCodeEncryptor.__init__", "AES128Proxy.encrypt/decrypt", "BlockFeeder.feed", "BytesReader.read/seek"],
    stubs=["S-io", "S-cbc", "S-crc", "S-sha"],
    assumptions=["AES-CBC = uninterpreted per-(key,prev) bijection; CRC = fold of an uninterpreted step; SHA-256 = UF"],
    bounds=dict(quick="payload lengths 0..48 and 60,61,127,128,253 (frame), all customer-key positions for len in {10,11,12,26}; arbitrary-frame parser query for 1 and 2 blocks; padding formula for all lengths 0..253 symbolically", thorough="every payload length 0..253 for both encryptors; all customer-key positions for len<=30, boundary positions at 48,61,100,253; arbitrary frames of 1..3 blocks"),
    outside=["payload > 253 (length byte overflows: OverflowError, concrete edge)", "customer key slot extending past the payload"],
)


def jobs(tier, seed):
    J = []
    lens = (list(range(0, 49)) + [60, 61, 127, 128, 253]) if tier == "quick" else list(range(0, 254))
    for L in lens:
        J.append(dict(name="frame:cust:L%d" % L, kind="frame", enc="cust", L=L, timeout=900, cost=L + 10))
        if tier == "thorough" or (L % 3 == 0 and L < 100) or L == 253:
            J.append(dict(name="frame:code:L%d" % L, kind="frame", enc="code", L=L, timeout=900, cost=L + 10))
    cklens = [10, 11, 12, 26] if tier == "quick" else list(range(10, 31))
    for L in cklens:
        J.append(dict(name="custkey:allpos:L%d" % L, kind="custkey", L=L, positions="all", timeout=1200, cost=8 * L))
    for L in ([] if tier == "quick" else [48, 61, 100, 253]):
        J.append(dict(name="custkey:boundarypos:L%d" % L, kind="custkey", L=L, positions="boundary", timeout=1200 if L < 200 else 4000, cost=5 * L))
    for m in ((1, 2) if tier == "quick" else (1, 2, 3)):
        J.append(dict(name="parse:anyframe:blocks%d" % m, kind="anyframe", m=m, timeout=1500, cost=400 * m))
    J.append(dict(name="padding-formula", kind="padformula", timeout=120))
    J.append(dict(name="frame:twin", kind="frame", enc="cust", L=5, twin=True, expect="violated", timeout=300))
    J.append(dict(name="overflow-edge", kind="overflow", timeout=120))
    return J


def pad_formula_from_ast():
    import z3
    from vlib import common

    src = open(os.path.join(common.REPO, "bec2format", "bec2file.py")).read()
    tree = ast.parse(src)
    cls = [n for n in tree.body if isinstance(n, ast.ClassDef) and n.name == "AesEncryptorMixin"][0]
    fn = [n for n in cls.body if isinstance(n, ast.FunctionDef) and n.name == "encrypt"][0]
    L = z3.Int("L")
    env = {"AES128.BLOCK_SIZE": z3.IntVal(16)}

    def ev(n):
        if isinstance(n, ast.Constant) and isinstance(n.value, int):
            return z3.IntVal(n.value)
        if isinstance(n, ast.Name):
            return env[n.id]
        if isinstance(n, ast.Attribute):
            return env[ast.unparse(n)]
        if isinstance(n, ast.Call) and ast.unparse(n.func) == "len":
            a = ast.unparse(n.args[0])
            if a == "plaintext":
                return L
            if a == "crc":
                return env["len(crc)"]
            raise ValueError(a)
        if isinstance(n, ast.UnaryOp) and isinstance(n.op, ast.USub):
            return -ev(n.operand)
        if isinstance(n, ast.BinOp):
            a, b = ev(n.left), ev(n.right)
            op = type(n.op)
            if op is ast.Add:
                return a + b
            if op is ast.Sub:
                return a - b
            if op is ast.Mod:
                return a % b  # z3 Int mod: non-negative for positive divisor = Python semantics
            if op is ast.Mult:
                return a * b
        raise ValueError(ast.dump(n))

    for st in fn.body:
        if isinstance(st, ast.Assign) and isinstance(st.targets[0], ast.Name):
            name = st.targets[0].id
            if name == "crc":
                # crc8404B(plaintext).to_bytes(2, "big")
                call = st.value
                if isinstance(call, ast.Call) and isinstance(call.func, ast.Attribute) and call.func.attr == "to_bytes":
                    env["len(crc)"] = z3.IntVal(call.args[0].value)
                continue
            if name == "plaintext":
                break
            env[name] = ev(st.value)
    return L, env


def run_job(job):
    kind = job["kind"]
    if kind == "padformula":
        import z3

        L, env = pad_formula_from_ast()
        p, h, c = env["padding_len"], env["header_len"], env["len(crc)"]
        s = z3.Solver()
        qs = []
        s.push(); s.add(L >= 0, L <= 253, z3.Or(p < 1, p > 16)); qs.append(("1<=pad<=16", str(s.check()))); s.pop()
        s.push(); s.add(L >= 0, L <= 253, (h + p + L + c) % 16 != 0); qs.append(("frame multiple of 16", str(s.check()))); s.pop()
        s.push(); s.add(L >= 0, L <= 253, z3.Or(h != 2, c != 2)); qs.append(("header 2, crc 2", str(s.check()))); s.pop()
        bad = [q for q in qs if q[1] != "unsat"]
        return dict(verdict="violated" if bad else "held", state=str(qs), queries=3, solver_s=0.0, symbolic_dims=1, signature="C08:padding-formula", message=str(qs), witness={"bad": bad})
    from vlib.enginea import sym, runner, stubs

    stubs.load_repo()
    stubs.install_uf_cbc()
    stubs.install_uf_crc()
    stubs.install_uf_sha()
    from bec2format import bec2file as b2
    from bec2format.error import Bec2FileFormatError

    if kind == "overflow":
        def h():
            key = sym.sym_bytes("key", 16)
            try:
                b2.SoftwareCustKeyEncryptor(key).encrypt(sym.sym_bytes("p", 254))
            except OverflowError:
                return True
            return False

        res = runner.run(h, 100, 100)
        res["symbolic_dims"] = 270
        res["signature"] = "C08:overflow-edge"
        return res

    def mk(enc_kind):
        if enc_kind == "cust":
            key = sym.sym_bytes("key", 16)
            return b2.SoftwareCustKeyEncryptor(key), key, dict(key=key)
        code = sym.sym_bytes("code", 8)
        e = b2.ConfigSecurityCodeEncryptor(code)
        key = stubs.model_sha(code)[:16]
        return e, key, dict(code=code)

    def frame_ok(ct, key, L, payload):
        """independent model: decrypt with CBC over the same UF and check the layout"""
        if len(ct) % 16 != 0 or len(ct) < L + 5 or len(ct) > L + 20:
            return False
        plain = stubs.model_cbc_decrypt(key, None, ct)
        k = len(ct) - 4 - L
        if not (1 <= k <= 16):
            return False
        crc = stubs.uf_crc(payload)
        want = b"B" + bytes([L + 2]) + bytes(k) + payload + bytes([crc // 256, crc % 256])
        return plain == want

    if kind == "frame":
        L, twin = job["L"], job.get("twin")

        def h():
            e, key, vals = mk(job["enc"])
            if job["enc"] == "code":
                # key derivation: first 16 bytes of SHA-256(code)
                if e.cipher._key != key:
                    runner.record_witness(**vals)
                    return False
            p = sym.sym_bytes("p", L)
            vals["p"] = p
            ct = e.encrypt(p)
            stage = "layout"
            ok = frame_ok(ct, key, L, p)
            if ok:
                stage = "inverse"
                ok = e.decrypt(ct) == p
            if ok:
                stage = "marker"
                # wrong marker => error
                m = sym.sym_int("marker", 0, 256)
                k = len(ct) - 4 - L
                crc = stubs.uf_crc(p)
                crcb = bytes([crc // 256, crc % 256])
                bad = bytes([m, L + 2]) + bytes(k) + p + crcb
                good_marker = m == 0x42
                ctb = stubs.model_cbc_encrypt(key, None, bad)
                try:
                    r = e.decrypt(ctb)
                    ok = good_marker and r == p
                except Bec2FileFormatError:
                    ok = not good_marker
            if ok:
                stage = "crc"
                # wrong CRC => error
                c2 = sym.sym_int("crc2", 0, 65536)
                bad = b"B" + bytes([L + 2]) + bytes(k) + p + bytes([c2 // 256, c2 % 256])
                same = c2 == crc
                ctb = stubs.model_cbc_encrypt(key, None, bad)
                try:
                    r = e.decrypt(ctb)
                    ok = same and r == p
                except Bec2FileFormatError:
                    ok = not same
            if twin:
                ok = False
            if not ok:
                runner.record_witness(stage=stage, **vals)
            return ok

        res = runner.run(h, job["timeout"] - 60, job["timeout"] - 60)
        res["symbolic_dims"] = L + 16
        if res["verdict"] == "violated":
            res["signature"] = "C08:frame"
        return res

    if kind == "custkey":
        L = job["L"]
        if job["positions"] == "all":
            poss = list(range(0, L - 9))
        else:
            poss = sorted(set([0, 1, (L - 10) // 2, L - 11, L - 10]))

        def h():
            key = sym.sym_bytes("key", 16)
            ck = sym.sym_bytes("ck", 10)
            p = sym.sym_bytes("p", L)
            pos = sym.sym_int("pos", 0, len(poss))
            vals = dict(key=key, ck=ck, p=p, pos=pos)
            cpos = None
            for i, c in enumerate(poss):
                if pos == i:
                    cpos = c
                    break
            if cpos is None:
                return True
            # a customer key of ten 00 bytes counts as 'not configured' for bytes truthiness? no: bytes truthiness is length
            e = b2.SoftwareCustKeyEncryptor(key, ck, cpos)
            ct = e.encrypt(p)
            overlaid = p[:cpos] + ck + p[cpos + 10 :]
            ok = frame_ok(ct, key, L, overlaid)
            if ok:
                blank = p[:cpos] + bytes(10) + p[cpos + 10 :]
                ok = e.decrypt(ct) == blank
            if ok:
                other = sym.sym_bytes("ck2", 10)
                e2 = b2.SoftwareCustKeyEncryptor(key, other, cpos)
                same = other == ck
                try:
                    r = e2.decrypt(ct)
                    ok = same
                except Bec2FileFormatError:
                    ok = not same
            if not ok:
                runner.record_witness(cpos=cpos, **vals)
            return ok

        res = runner.run(h, job["timeout"] - 60, job["timeout"] - 60)
        res["symbolic_dims"] = L + 27
        if res["verdict"] == "violated":
            res["signature"] = "C08:custkey"
        return res

    if kind == "anyframe":
        m = job["m"]

        def h():
            key = sym.sym_bytes("key", 16)
            ct = sym.sym_bytes("ct", 16 * m)
            e = b2.SoftwareCustKeyEncryptor(key)
            plain = stubs.model_cbc_decrypt(key, None, ct)
            n = plain[1]
            try:
                r = e.decrypt(ct)
            except (Bec2FileFormatError, ValueError):
                # rejection is always allowed unless the frame is perfectly well-formed
                wf = plain[0] == 0x42 and 2 <= n and n + 3 <= 16 * m and 16 * m - n - 2 <= 16
                if wf:
                    pl = plain[16 * m - n : 16 * m - 2]
                    crc = stubs.uf_crc(pl)
                    pad_zero = plain[2 : 16 * m - n] == bytes(16 * m - n - 2)
                    if pad_zero and plain[16 * m - 2] * 256 + plain[16 * m - 1] == crc:
                        runner.record_witness(key=key, ct=ct, plain=plain)
                        return False
                return True
            # accepted: marker and CRC of the located payload must be right
            ok = plain[0] == 0x42
            if ok:
                # locate as the documentation says: payload = n-2 bytes before the 2 CRC bytes at the end
                start = 16 * m - n
                if n < 2:
                    ok = False
                else:
                    pl = plain[start : 16 * m - 2]
                    crc = stubs.uf_crc(pl)
                    ok = r == pl and plain[16 * m - 2] * 256 + plain[16 * m - 1] == crc
            if not ok:
                runner.record_witness(key=key, ct=ct, plain=plain, returned=r)
            return ok

        res = runner.run(h, job["timeout"] - 60, job["timeout"] - 60)
        res["symbolic_dims"] = 16 * m + 16
        if res["verdict"] == "violated":
            res["signature"] = "C08:parser-accepts-malformed"
        return res
    raise ValueError(kind)


def _unhex(w):
    if isinstance(w, dict):
        if set(w) == {"hex"}:
            return bytes.fromhex(w["hex"])
        return {k: _unhex(v) for k, v in w.items()}
    return w


def replay(job):
    """real AES/CRC/SHA.  The UF abstraction may hide the trigger (e.g. 'CRC
    low byte is 00'), so around the witness the free inputs are searched
    (<= 2^16 candidates) for the same failure."""
    import hashlib
    import random
    import register_crypto_plugin  # noqa
    from register_crypto_plugin.pyaes import AESModeOfOperationCBC
    from bec2format import bec2file as b2
    from bec2format.error import Bec2FileFormatError

    if job.get("twin"):
        return dict(reproduced=True, signature="twin")
    kind = job["kind"]
    w = _unhex(job.get("witness") or {})
    rnd = random.Random(5)

    def aes_dec(key, ct):
        m = AESModeOfOperationCBC(key, bytes(16))
        return b"".join(m.decrypt(ct[i : i + 16]) for i in range(0, len(ct), 16))

    def check_frame(e, key, p, overlay=None, expect_dec=None):
        ct = e.encrypt(p)
        if len(ct) % 16:
            return "ciphertext length %d" % len(ct)
        plain = aes_dec(key, ct)
        pl = overlay if overlay is not None else p
        k = len(ct) - 4 - len(p)
        crc = b2.crc8404B(pl).to_bytes(2, "big")
        want = b"B" + bytes([len(p) + 2]) + bytes(k) + pl + crc
        if not (1 <= k <= 16) or plain != want:
            return "frame %s != %s" % (plain.hex(), want.hex())
        try:
            d = e.decrypt(ct)
        except Exception as ex:
            return "decrypt of own frame raised %s: %s (payload %s key %s)" % (type(ex).__name__, ex, p.hex(), key.hex())
        if d != (expect_dec if expect_dec is not None else p):
            return "decrypt returned %s for payload %s" % (d.hex(), p.hex())
        return None

    if kind in ("frame", "custkey"):
        L = job["L"]
        for t in range(3000):
            if t == 0:
                p = w.get("p", bytes(L)); key = w.get("key", bytes(16)); code = w.get("code", bytes(8)); ck = w.get("ck", bytes(10))
            else:
                p = bytes(rnd.randrange(256) for _ in range(L)); key = bytes(rnd.randrange(256) for _ in range(16)); code = bytes(rnd.randrange(256) for _ in range(8)); ck = bytes(rnd.randrange(256) for _ in range(10))
            if kind == "frame":
                if job["enc"] == "cust":
                    e = b2.SoftwareCustKeyEncryptor(key)
                else:
                    e = b2.ConfigSecurityCodeEncryptor(code)
                    key = hashlib.sha256(code).digest()[:16]
                    if e.cipher._key != key:
                        return dict(reproduced=True, signature="C08:frame", detail="security-code key derivation differs")
                err = check_frame(e, key, p)
                if err is None:
                    # wrong marker / wrong crc on the real code
                    ct = e.encrypt(p)
                    plain = bytearray(aes_dec(key, ct))
                    for idx in (0, len(plain) - 1, len(plain) - 2):
                        q = bytearray(plain); q[idx] ^= 0x01
                        m = AESModeOfOperationCBC(key, bytes(16))
                        ctb = b"".join(m.encrypt(bytes(q[i : i + 16])) for i in range(0, len(q), 16))
                        try:
                            e.decrypt(ctb)
                            err = "corrupted frame (byte %d) accepted" % idx
                        except Bec2FileFormatError:
                            pass
                        except Exception as ex:
                            err = "corrupted frame raised %s" % type(ex).__name__
            else:
                cpos = w.get("cpos", 0) if t == 0 else rnd.randrange(0, L - 9)
                e = b2.SoftwareCustKeyEncryptor(key, ck, cpos)
                err = check_frame(e, key, p, overlay=p[:cpos] + ck + p[cpos + 10 :], expect_dec=p[:cpos] + bytes(10) + p[cpos + 10 :])
                if err is None:
                    ck2 = bytes([ck[0] ^ 1]) + ck[1:]
                    try:
                        b2.SoftwareCustKeyEncryptor(key, ck2, cpos).decrypt(e.encrypt(p))
                        err = "wrong customer key accepted"
                    except Bec2FileFormatError:
                        pass
            if err:
                return dict(reproduced=True, signature="C08:" + kind, detail=err[:600], tries=t + 1)
        return dict(reproduced=False, detail="no reproduction in 3000 candidates")
    if kind == "anyframe":
        # construct the frame the witness describes with the real AES
        key = w.get("key", bytes(16)); plain = w.get("plain")
        if plain is None:
            return dict(reproduced=False, detail="no witness")
        m = AESModeOfOperationCBC(key, bytes(16))
        ct = b"".join(m.encrypt(plain[i : i + 16]) for i in range(0, len(plain), 16))
        e = b2.SoftwareCustKeyEncryptor(key)
        try:
            r = e.decrypt(ct)
        except (Bec2FileFormatError, ValueError) as ex:
            return dict(reproduced=False, detail="real code rejects: %s" % ex)
        except Exception as ex:
            return dict(reproduced=True, signature="C08:parser-accepts-malformed", detail="unexpected %s" % type(ex).__name__)
        n = plain[1]
        pl = plain[len(plain) - n : len(plain) - 2] if n >= 2 else None
        ok = plain[0] == 0x42 and pl is not None and r == pl and b2.crc8404B(pl) == int.from_bytes(plain[-2:], "big")
        return dict(reproduced=not ok, signature="C08:parser-accepts-malformed", detail="frame %s accepted as %s" % (plain.hex(), r.hex()))
    if kind == "padformula":
        bad = []
        for L in range(0, 254):
            ct = b2.SoftwareCustKeyEncryptor(bytes(16)).encrypt(bytes(L))
            k = len(ct) - 4 - L
            if len(ct) % 16 or not 1 <= k <= 16:
                bad.append(L)
        return dict(reproduced=bool(bad), signature="C08:padding-formula", detail="lengths %s" % bad[:10])
    if kind == "overflow":
        try:
            b2.SoftwareCustKeyEncryptor(bytes(16)).encrypt(bytes(254))
            return dict(reproduced=True, signature="C08:overflow-edge", detail="254-byte payload accepted")
        except OverflowError:
            return dict(reproduced=False)
    return dict(reproduced=False)
