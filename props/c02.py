"""C02 - BEC2 write-then-read recovers key, auth blocks and content for every key."""
import io
import itertools

PROPERTY = "C02"
FILES = ["bec2format/bec2file.py", "bec2format/bf3file.py", "bec2format/crypto.py", "bec2format/bytes_reader.py", "appnotes/register_crypto_plugin/__init__.py", "appnotes/register_crypto_plugin/pyaes/blockfeeder.py"]
META = dict(
    level="other",
    engines="A",
    files=FILES,
    technique="bounded symbolic execution of the real BEC2 writer and reader (CrossHair/z3) per auth-block combination with session key, wrapping keys, security code, version, customer key and content symbolic; AES-CBC, CRC, SHA-256 and ECDH as uninterpreted functions with their algebraic contracts",
    level_text="Solver verdict over all session keys, crypto keys, security codes, versions 0..255, customer keys and content bytes for every enumerated ordered block subset, selector and decryptor subset: same session key, same blocks (kind, selector, version, code; unopened blocks byte-identical), same content.",
    level_note="Trusted: z3, CrossHair proxies, UF abstractions: AES-CBC bijection (C16), CRC fold (C15) so that every CRC value incl. 00 bytes is covered, SHA-256, ECDH with DH(a,pub(b))=DH(b,pub(a)) (C17 covers the arithmetic on small fields); text layer by C01 lemmas.",
    explanation="Bounded symbolic verification with CrossHair (z3): real Bec2File.write_file/to_binary/pack_auth_blocks, read_file/unpack_auth_blocks, InitCustKey/InitEcc/UpdateAuthBlock pack/unpack, AesEncryptorMixin, SoftwareCustKeyEncryptor, ConfigSecurityCodeEncryptor, EccEncryptor/EccDecryptor, real adapter + block feeder, real Bf3File binary layer. Keys and CRC values are solver variables, so 'session key ending in 00', 'CRC low byte 00' are inside the quantification.",
    functions=["Bec2File.write_file", "Bec2File.to_binary", "Bec2File.pack_auth_blocks", "Bec2File.read_file", "Bec2File.unpack_auth_blocks", "InitCustKeyAuthBlock.pack/unpack", "InitEccAuthBlock.pack/unpack", "UpdateAuthBlock.pack/unpack", "AuthBlock.select_encryptor", "AesEncryptorMixin.encrypt/decrypt", "SoftwareCustKeyEncryptor.encrypt/decrypt", "EccEncryptor.encrypt", "EccDecryptor.decrypt", "ConfigSecurityCodeEncryptor.__init__", "PublicEccKey.create_from_raw_fmt/to_raw_bin_fmt", "Bf3File.to_binary/from_binary", "AES128Proxy.*"],
    stubs=["S-io", "S-cbc", "S-crc", "S-sha", "S-ecc", "text-layer bypass"],
    assumptions=["ECDH modelled as a symmetric UF; key generation returns a fresh symbolic key"],
    bounds=dict(quick="all 15 ordered non-empty subsets of {cust, ecc, update} with all-decryptors, plus every proper decryptor subset for the 3-block orders (sampled by seed: 12), selectors 0..3 on the single-ecc shape, customer key absent/present (position 0); content: 3-byte plain + 17-byte encrypted component", thorough="all 15 subsets x every decryptor subset opening >= 1 block x selector {0,3}; customer key absent/present; content lengths {16,17}"),
    outside=["real ECDH/SHA-256 values", "> 2 components", "customer key position != 0 inside an InitCustKey block (overwrites the session key by construction)"],
)

KINDS = ("cust", "ecc", "update")


def orders():
    out = []
    for r in (1, 2, 3):
        for sub in itertools.permutations(KINDS, r):
            out.append(list(sub))
    return out


def dec_subsets(order):
    out = []
    for r in range(1, len(order) + 1):
        for sub in itertools.combinations(sorted(order), r):
            out.append(list(sub))
    return out


def jobs(tier, seed):
    import random

    rnd = random.Random(seed)
    J = []

    def add(order, decs, sel=0, custkey=False, n=17):
        J.append(dict(name="rt:%s|dec=%s|sel%d%s|n%d" % ("+".join(order), "+".join(decs), sel, "|ck" if custkey else "", n), kind="rt", order=order, decs=decs, sel=sel, custkey=custkey, n=n, timeout=900, cost=100 * len(order)))

    if tier == "quick":
        for o in orders():
            add(o, sorted(o))
        three = [o for o in orders() if len(o) == 3]
        cands = [(o, d) for o in three for d in dec_subsets(o) if len(d) < 3]
        for o, d in rnd.sample(cands, 12):
            add(o, d)
        for sel in (1, 2, 3):
            add(["ecc"], ["ecc"], sel=sel)
        add(["cust"], ["cust"], custkey=True)
        add(["cust", "update"], ["cust"], custkey=True)
        add(["update"], ["update"], n=16)
    else:
        for o in orders():
            for d in dec_subsets(o):
                for sel in ((0, 3) if "ecc" in o else (0,)):
                    add(o, d, sel=sel)
        for o in (["cust"], ["cust", "update"], ["ecc", "cust"], ["update", "ecc", "cust"]):
            add(o, sorted(o), custkey=True)
            add(o, ["cust"], custkey=True, n=16)
    for sel in ((0, 2) if tier == "quick" else (0, 1, 2, 3)):
        J.append(dict(name="history:two-files-same-selector:sel%d" % sel, kind="twofiles", order=["ecc"], decs=["ecc"], sel=sel, custkey=False, n=5, timeout=900, cost=150))
    J.append(dict(name="rt:twin", kind="rt", order=["cust"], decs=["cust"], sel=0, custkey=False, n=17, twin=True, expect="violated", timeout=300))
    return J


def run_job(job):
    from vlib.enginea import sym, runner, stubs

    stubs.load_repo()
    stubs.install_uf_cbc()
    stubs.install_uf_crc()
    stubs.install_uf_sha()
    UFPrivate, UFPublic = stubs.install_uf_ecc()
    stubs.install_text_bypass()
    from bec2format import bf3file as bf, bec2file as b2

    order, decs, sel, twin = job["order"], job["decs"], job["sel"], job.get("twin")

    if job["kind"] == "twofiles":
        def h2():
            # results must not depend on earlier writes in the same process (no state kept on classes)
            keys = [sym.sym_bytes("keyA", 16), sym.sym_bytes("keyB", 16)]
            recips = [UFPrivate.generate(), UFPrivate.generate()]
            confs = [sym.sym_bytes("confA", 5), sym.sym_bytes("confB", 5)]
            runner.track(dict(keyA=keys[0], keyB=keys[1]))
            carriers = []
            for i in range(2):
                f = bf.Bf3File({}, [bf.Bf3Component({0xC3: b"\x03", 0xC2: b"\x02"}, confs[i], 5, encrypt_by_session_key=True)])
                c = stubs.Carrier()
                b2.Bec2File(f, [b2.InitEccAuthBlock(sel)], keys[i]).write_file(c, [b2.EccEncryptor(sel, recips[i].public_key)])
                carriers.append(c)
            ok = True
            for i in (1, 0):
                r = b2.Bec2File.read_file(carriers[i], [b2.EccDecryptor(sel, recips[i])])
                ok = ok and r.session_key == keys[i] and r.bf3file.components[0].blob[:5] == confs[i]
            if not ok:
                runner.record_witness(keyA=keys[0], keyB=keys[1])
            return ok

        res = runner.run(h2, job["timeout"] - 60, job["timeout"] - 60)
        res["symbolic_dims"] = 42
        if res["verdict"] == "violated":
            res["signature"] = "C02:second-file-depends-on-first"
        return res

    def h():
        key = sym.sym_bytes("key", 16)
        ck = sym.sym_bytes("ck", 16)
        code = sym.sym_bytes("code", 8)
        ver = sym.sym_int("ver", 0, 256)
        vals = dict(key=key, ck=ck, code=code, ver=ver)
        custkey = None
        if job["custkey"]:
            custkey = sym.sym_bytes("custkey", 10)
            vals["custkey"] = custkey
        plain = sym.sym_bytes("plain", 3)
        conf = sym.sym_bytes("conf", job["n"])
        vals.update(plain=plain, conf=conf)
        runner.track(vals)
        f = bf.Bf3File({}, [bf.Bf3Component({0xC3: b"\x02"}, plain), bf.Bf3Component({0xC3: b"\x03", 0xC2: b"\x02", 0xC1: b"\x03", 0xC5: b"\x01"}, conf, job["n"], encrypt_by_session_key=True)])
        recipient = UFPrivate.generate()
        blocks = []
        wenc = []
        for k in order:
            if k == "cust":
                blocks.append(b2.InitCustKeyAuthBlock())
                wenc.append(b2.SoftwareCustKeyEncryptor(ck, custkey, 0 if custkey is not None else None))
            elif k == "ecc":
                blocks.append(b2.InitEccAuthBlock(sel))
                wenc.append(b2.EccEncryptor(sel, recipient.public_key))
            else:
                blocks.append(b2.UpdateAuthBlock(code, ver))
        w = b2.Bec2File(f, blocks, key)
        carrier = stubs.Carrier()
        w.write_file(carrier, wenc)
        raw_written = carrier.raw
        renc = []
        for k in decs:
            if k == "cust":
                renc.append(b2.SoftwareCustKeyEncryptor(ck, custkey, 0 if custkey is not None else None))
            elif k == "ecc":
                renc.append(b2.EccDecryptor(sel, recipient))
            else:
                renc.append(b2.ConfigSecurityCodeEncryptor(code))
        r = b2.Bec2File.read_file(carrier, renc)
        ok = r.session_key == key
        rb = list(r.auth_blocks.values())
        if ok and len(rb) != len(blocks):
            ok = False
        # independent walk over the written header TLVs
        hdr = []
        pos = 5
        for _ in blocks:
            tl = raw_written[pos + 1]
            hdr.append((raw_written[pos], raw_written[pos + 2 : pos + 2 + tl]))
            pos += 2 + tl
        if raw_written[pos : pos + 2] != b"\x00\x00" or raw_written[:5] != b"BEC2\x00":
            ok = False
        if ok:
            for (k, orig, got), (htag, hval) in zip(zip(order, blocks, rb), hdr):
                if k in decs:
                    if k == "cust":
                        ok = ok and isinstance(got, b2.InitCustKeyAuthBlock) and got.tag == 1
                    elif k == "ecc":
                        ok = ok and isinstance(got, b2.InitEccAuthBlock) and got.tag == 3 and got.key_selector == sel
                    else:
                        ok = ok and isinstance(got, b2.UpdateAuthBlock) and got.tag == 2 and got.version == ver and got.config_security_code == code
                else:
                    ok = ok and isinstance(got, b2.UnknownAuthBlock) and got.tag == orig.tag
                    # kept byte-for-byte: writing the read object again reproduces the block
                    ok = ok and got.binary_value == hval and htag == orig.tag
        if ok:
            g = r.bf3file
            ok = len(g.components) == 2 and g.components[0].blob == plain and g.components[1].blob[: g.components[1].actual_len] == conf and g.components[1].actual_len == job["n"] and g.components[1].encrypt_by_session_key is True and g.components[0].encrypt_by_session_key is False
        if twin:
            ok = False
        if not ok:
            runner.record_witness(**vals)
        return ok

    res = runner.run(h, job["timeout"] - 60, job["timeout"] - 60)
    res["symbolic_dims"] = 16 + 16 + 8 + 1 + 3 + job["n"]
    if res["verdict"] == "violated":
        res["signature"] = "C02:roundtrip"
    return res


def _unhex(w):
    if isinstance(w, dict):
        if set(w) == {"hex"}:
            return bytes.fromhex(w["hex"])
        return {k: _unhex(v) for k, v in w.items()}
    return w


def real_roundtrip(job, v, recipient):
    """one write+read on the real code with real AES/ECDH; returns error text or None"""
    from bec2format import bf3file as bf, bec2file as b2

    order, decs, sel = job["order"], job["decs"], job["sel"]
    key, ck, code, ver = v["key"], v["ck"], v["code"], v["ver"]
    custkey = v.get("custkey") if job.get("custkey") else None
    plain, conf = v["plain"], v["conf"]
    f = bf.Bf3File({}, [bf.Bf3Component({0xC3: b"\x02"}, plain), bf.Bf3Component({0xC3: b"\x03", 0xC2: b"\x02", 0xC1: b"\x03", 0xC5: b"\x01"}, conf, len(conf), encrypt_by_session_key=True)])
    blocks, wenc = [], []
    for k in order:
        if k == "cust":
            blocks.append(b2.InitCustKeyAuthBlock())
            wenc.append(b2.SoftwareCustKeyEncryptor(ck, custkey, 0 if custkey is not None else None))
        elif k == "ecc":
            blocks.append(b2.InitEccAuthBlock(sel))
            wenc.append(b2.EccEncryptor(sel, recipient.public_key))
        else:
            blocks.append(b2.UpdateAuthBlock(code, ver))
    s = io.StringIO()
    try:
        b2.Bec2File(f, blocks, key).write_file(s, wenc)
    except Exception as e:
        return "write raised %s: %s" % (type(e).__name__, e)
    renc = []
    for k in decs:
        if k == "cust":
            renc.append(b2.SoftwareCustKeyEncryptor(ck, custkey, 0 if custkey is not None else None))
        elif k == "ecc":
            renc.append(b2.EccDecryptor(sel, recipient))
        else:
            renc.append(b2.ConfigSecurityCodeEncryptor(code))
    s.seek(0)
    try:
        r = b2.Bec2File.read_file(s, renc)
    except Exception as e:
        return "read raised %s: %s" % (type(e).__name__, e)
    if r.session_key != key:
        return "session key %s read as %s" % (key.hex(), r.session_key.hex())
    rb = list(r.auth_blocks.values())
    if len(rb) != len(blocks):
        return "block count"
    for k, orig, got in zip(order, blocks, rb):
        if k in decs:
            if k == "cust" and not isinstance(got, b2.InitCustKeyAuthBlock):
                return "cust block read as %r" % got
            if k == "ecc" and not (isinstance(got, b2.InitEccAuthBlock) and got.key_selector == sel):
                return "ecc block read as %r" % got
            if k == "update" and not (isinstance(got, b2.UpdateAuthBlock) and got.version == ver and got.config_security_code == code):
                return "update block read as %r" % got
        elif not (isinstance(got, b2.UnknownAuthBlock) and got.tag == orig.tag):
            return "unopened block read as %r" % got
    g = r.bf3file
    c = g.components
    if not (len(c) == 2 and c[0].blob == plain and c[1].blob[: c[1].actual_len] == conf and c[1].actual_len == len(conf) and c[1].encrypt_by_session_key is True):
        return "content differs: %r" % g
    return None


def replay(job):
    """real crypto.  UF abstractions hide value-dependent triggers (CRC bytes,
    key bytes), so the witness is tried first and then <= 4000 random
    candidates of the same shape, with the values the property names as
    rare (trailing 00 key bytes, versions) over-represented."""
    import random
    import register_crypto_plugin  # noqa
    from bec2format import generate_private_ecc_key

    if job.get("twin"):
        return dict(reproduced=True, signature="twin")
    if job.get("kind") == "twofiles":
        from bec2format import bf3file as bf, bec2file as b2

        sel = job["sel"]
        recips = [generate_private_ecc_key(), generate_private_ecc_key()]
        texts = []
        for i in range(2):
            f = bf.Bf3File({}, [bf.Bf3Component({0xC3: b"\x03", 0xC2: b"\x02"}, bytes([i + 1]) * 5, 5, encrypt_by_session_key=True)])
            s_ = io.StringIO()
            b2.Bec2File(f, [b2.InitEccAuthBlock(sel)], bytes([0x40 + i]) * 16).write_file(s_, [b2.EccEncryptor(sel, recips[i].public_key)])
            texts.append(s_.getvalue())
        for i in (1, 0):
            try:
                r = b2.Bec2File.read_file(io.StringIO(texts[i]), [b2.EccDecryptor(sel, recips[i])])
                if r.session_key != bytes([0x40 + i]) * 16:
                    return dict(reproduced=True, signature="C02:second-file-depends-on-first", detail="file %d read with key %s" % (i, r.session_key.hex()))
            except Exception as e:
                return dict(reproduced=True, signature="C02:second-file-depends-on-first", detail="file %d (written after another file with the same selector %d to a different recipient) cannot be read by its recipient: %s: %s" % (i, sel, type(e).__name__, e))
        return dict(reproduced=False)
    w = _unhex(job.get("witness") or {})
    rnd = random.Random(11)
    recipient = generate_private_ecc_key()
    n = job["n"]
    for t in range(4000):
        if t == 0 and w:
            v = dict(w)
        else:
            v = dict(key=bytes(rnd.randrange(256) for _ in range(16)), ck=bytes(rnd.randrange(256) for _ in range(16)), code=bytes(rnd.randrange(256) for _ in range(8)), ver=rnd.randrange(256), custkey=bytes(rnd.randrange(256) for _ in range(10)), plain=bytes(rnd.randrange(256) for _ in range(3)), conf=bytes(rnd.randrange(256) for _ in range(n)))
            if rnd.random() < 0.5:
                z = rnd.choice([1, 1, 2, 3])
                v["key"] = v["key"][: 16 - z] + bytes(z)
            if rnd.random() < 0.3:
                v["conf"] = v["conf"][:-1] + b"\x00"
        for k in ("key", "ck", "code", "ver", "plain", "conf"):
            v.setdefault(k, {"key": bytes(16), "ck": bytes(16), "code": bytes(8), "ver": 0, "plain": bytes(3), "conf": bytes(n)}[k])
        v.setdefault("custkey", bytes(10))
        err = real_roundtrip(job, v, recipient)
        if err:
            return dict(reproduced=True, signature="C02:roundtrip", detail=(err + " | inputs key=%s ver=%s code=%s" % (v["key"].hex(), v["ver"], v["code"].hex()))[:700], tries=t + 1)
    return dict(reproduced=False, detail="no reproduction in 4000 candidates")
