"""C10 - configurations encode to bounded TLV blocks that decode to the same operations."""
import itertools

PROPERTY = "C10"
FILES = ["bec2format/bf3file.py"]
META = dict(
    level="other",
    engines="A",
    files=FILES,
    technique="bounded symbolic execution of the real conf_dict_to_list / conf_dict_to_tlv / set_config (CrossHair/z3) on configurations whose keys, value ids and content lengths are solver variables (contents are opaque provenance-tagged parts), against an independent decoder of the TLV grammar",
    level_text="Solver verdict over all keys 0..0xFFFF, value ids 0..0xFE, content lengths 0..254 and all sort orders for every entry-kind pattern with up to 3 (quick) / 4 (thorough) entries: no empty block, blocks <= 117 bytes whenever each entry alone fits, decoded operations = deletions sorted then assignments sorted, each once with its own content; set_config framing (length prefixes, single 00, extra blocks, tags, encrypted flag) for concrete boundary lengths with symbolic content bytes.",
    level_note="Trusted: z3, CrossHair proxies, the opaque sized-bytes stand-in for configuration contents (40 lines, installed as bf3file.bytes in the checking process only), the reference decoder written from the grammar. The last value group of the last block is left open by the encoder (end of block is an implicit terminator); the decoder accepts that.",
    explanation="Bounded symbolic verification with CrossHair (z3): the real merging code runs unchanged on opaque contents whose lengths are symbolic ints, so block-size decisions (the > MAX_TLVBLOCK_SIZE test) are decided by the solver over all size vectors; the block part lists are then decoded by an independent decoder and compared with the dictionary's operations.",
    functions=["conf_dict_to_list", "conf_dict_to_tlv", "Bf3File.set_config", "Bf3File._get_config_ndx"],
    stubs=["opaque sized bytes (bf3file.bytes shadowed)", "proxy keys (hi, lo symbolic) so that key >> 8 and key & 0xFF stay symbolic"],
    assumptions=["(key, value id) pairs are distinct (they are dictionary keys)", "a delete-key entry is not combined with other entries of the same key"],
    bounds=dict(quick="1..3 entries, every kind pattern over {set, delete-value, delete-key}; set_config framing with content lengths {0,1,110,111,112,113,250}", thorough="1..4 entries, every kind pattern"),
    outside=["more than 4 entries", "b''.join framing with symbolic lengths (run with concrete boundary lengths)"],
)

KINDS = ("set", "delval", "delkey")


def jobs(tier, seed):
    J = []
    maxk = 3 if tier == "quick" else 4
    for k in range(1, maxk + 1):
        for pat in itertools.combinations_with_replacement(KINDS, k):
            J.append(dict(name="tlv:%s" % "+".join(pat), kind="tlv", pattern=list(pat), fits=True, timeout=1500 if k < 4 else 3400, cost=10 ** k))
    # without the 'every entry fits' assumption: the non-empty-block claim is unconditional
    for pat in (["set"], ["set", "set"], ["delkey", "set"], ["set", "set", "set"]):
        J.append(dict(name="tlv-anysize:%s" % "+".join(pat), kind="tlv", pattern=pat, fits=False, timeout=1500, cost=500))
    for lens in ([0], [1], [110], [111], [112], [113], [250], [5, 111], [112, 3], [40, 40, 40]):
        J.append(dict(name="setconfig:%s" % lens, kind="setconfig", lens=lens, timeout=900, cost=100))
    J.append(dict(name="setconfig-history:tags-edited-between-calls", kind="setconfig", lens=[2, 3], hist=True, timeout=900, cost=100))
    J.append(dict(name="tlv:twin", kind="tlv", pattern=["set", "set"], fits=True, twin=True, expect="violated", timeout=300))
    return J


def run_job(job):
    import z3
    from vlib.enginea import sym, runner, stubs

    stubs.load_repo()
    from bec2format import bf3file as bf

    if job["kind"] == "setconfig":
        return run_setconfig(job, sym, runner, stubs, bf)

    class OB:
        """opaque sized bytes: parts are ('b', value) single bytes or ('c', id, length) contents"""

        def __init__(self, parts=()):
            self.parts = list(parts)

        def __len__(self):
            n = 0
            for p in self.parts:
                n = n + (1 if p[0] == "b" else p[2])
            return n

        def __add__(self, o):
            if not isinstance(o, OB):
                return NotImplemented
            return OB(self.parts + o.parts)

        def __eq__(self, o):
            if not isinstance(o, OB) or len(self.parts) != len(o.parts):
                return False
            for a, b in zip(self.parts, o.parts):
                if a[0] != b[0]:
                    return False
                if a[0] == "b":
                    if not (a[1] == b[1]):
                        return False
                elif a[1] != b[1]:
                    return False
            return True

        __hash__ = None

    def bytes_factory(arg=None):
        if arg is None:
            return OB()
        return OB([("b", x) for x in arg])

    bf.bytes = bytes_factory  # module-level shadow, checking process only

    class Key:
        """configuration key as (hi, lo) so that the code's key >> 8 / key & 0xFF stay symbolic"""

        def __init__(self, hi, lo):
            self.hi, self.lo = hi, lo

        def num(self):
            return self.hi * 256 + self.lo

        def __rshift__(self, n):
            assert n == 8
            return self.hi

        def __and__(self, m):
            assert m == 0xFF
            return self.lo

        def __eq__(self, o):
            return isinstance(o, Key) and self.num() == o.num()

        def __lt__(self, o):
            return self.num() < o.num()

        def __gt__(self, o):
            return self.num() > o.num()

        def __le__(self, o):
            return self.num() <= o.num()

        def __ge__(self, o):
            return self.num() >= o.num()

        __hash__ = None

    class Conf:
        def __init__(self, items):
            self._items = items

        def items(self):
            return list(self._items)

    pattern, twin = job["pattern"], job.get("twin")

    def decode(block):
        """reference decoder for one block's part list -> ops or None"""
        ops, parts, i = [], block.parts, 0
        n = len(parts)
        while i < n:
            if parts[i][0] != "b":
                return None
            t = parts[i][1]
            if i + 2 >= n + 0 and not (i + 2 < n):
                return None
            if parts[i + 1][0] != "b" or parts[i + 2][0] != "b":
                return None
            key = (parts[i + 1][1], parts[i + 2][1])
            if t == 2:
                ops.append(("delkey", key))
                i += 3
                continue
            if not (t == 1):
                return None
            i += 3
            nitems = 0
            while True:
                if i >= n:
                    break  # end of block closes the group
                if parts[i][0] != "b":
                    return None
                v = parts[i][1]
                if v == 0xFF:
                    i += 1
                    break  # group terminator
                if i + 1 >= n or parts[i + 1][0] != "b":
                    return None
                ln = parts[i + 1][1]
                if ln == 0xFF:
                    ops.append(("delval", key, v))
                    i += 2
                else:
                    if i + 2 >= n or parts[i + 2][0] != "c":
                        return None
                    c = parts[i + 2]
                    if not (c[2] == ln):
                        return None
                    ops.append(("set", key, v, c[1]))
                    i += 3
                nitems += 1
            if nitems == 0:
                return None
        return ops

    def h():
        items, metas = [], []
        for i, kind in enumerate(pattern):
            key = Key(sym.sym_int("hi%d" % i, 0, 256), sym.sym_int("lo%d" % i, 0, 256))
            if kind == "delkey":
                items.append(((key, None), None))
                metas.append((kind, key, None, None, None))
            else:
                v = sym.sym_int("v%d" % i, 0, 0xFF)
                if kind == "delval":
                    items.append(((key, v), None))
                    metas.append((kind, key, v, None, None))
                else:
                    L = sym.sym_int("len%d" % i, 0, 255)
                    items.append(((key, v), OB([("c", i, L)])))
                    metas.append((kind, key, v, i, L))
        # dictionary keys are distinct; a delete-key entry shares its key with no other entry
        for a in range(len(metas)):
            for b in range(a + 1, len(metas)):
                ka, kb = metas[a][1].num(), metas[b][1].num()
                if metas[a][0] == "delkey" or metas[b][0] == "delkey":
                    sym.assume(sym.expr_of(ka) != sym.expr_of(kb))
                else:
                    sym.assume(z3.Or(sym.expr_of(ka) != sym.expr_of(kb), sym.expr_of(metas[a][2]) != sym.expr_of(metas[b][2])))
        if job["fits"]:
            for kind, key, v, cid, L in metas:
                if kind == "set":
                    sym.assume(sym.expr_of(L) + 6 <= 117)
        blocks = bf.conf_dict_to_tlv(Conf(items))
        why = None
        ops = []
        for blk in blocks:
            if len(blk) == 0:
                why = "empty block"
                break
            if job["fits"] and len(blk) > 117:
                why = "block longer than 117"
                break
            d = decode(blk)
            if d is None:
                why = "block does not follow the grammar"
                break
            ops += d
        if why is None:
            # expected: deletions sorted, then assignments sorted
            dels = [m for m in metas if m[0] != "set"]
            sets = [m for m in metas if m[0] == "set"]

            def dkey(m):
                return m[1].num()

            dels_sorted = sorted(dels, key=lambda m: (m[1].num(), -1 if m[2] is None else m[2]))
            sets_sorted = sorted(sets, key=lambda m: (m[1].num(), m[2]))
            want = []
            for m in dels_sorted:
                want.append(("delkey", (m[1].hi, m[1].lo)) if m[0] == "delkey" else ("delval", (m[1].hi, m[1].lo), m[2]))
            for m in sets_sorted:
                want.append(("set", (m[1].hi, m[1].lo), m[2], m[3]))
            if len(ops) != len(want):
                why = "operation count %d != %d" % (len(ops), len(want))
            else:
                for o, w in zip(ops, want):
                    same = o[0] == w[0] and o[1][0] == w[1][0] and o[1][1] == w[1][1]
                    if same and o[0] != "delkey":
                        same = o[2] == w[2]
                    if same and o[0] == "set":
                        same = o[3] == w[3]
                    if not same:
                        why = "operation differs"
                        break
        if twin and why is None:
            why = "twin"
        if why is not None:
            runner.record_witness(why=why, entries=[(m[0], m[1].num(), m[2], m[4]) for m in metas])
            return False
        return True

    res = runner.run(h, job["timeout"] - 60, job["timeout"] - 60)
    res["symbolic_dims"] = 4 * len(pattern)
    if res["verdict"] == "violated":
        w = (res.get("witness") or {}).get("why", "")
        res["signature"] = "C10:empty-block" if "empty" in str(w) else "C10:tlv"
    return res


def run_setconfig(job, sym, runner, stubs, bf):
    lens = job["lens"]

    def ref_blocks(cfg_sorted):
        """independent encoder for assignments only (distinct keys): returns list of bytes blocks"""
        blocks, cur = [], b""
        for (k, v), content in cfg_sorted:
            e = bytes([1, k >> 8, k & 0xFF, v, len(content)]) + content
            # greedy: an entry joins the block if the block still fits 117 bytes with its closing FF
            if cur and len(cur) + 1 + len(e) + 1 > 117:
                blocks.append(cur + b"\xff")
                cur = b""
            cur = cur + (b"\xff" if cur else b"") + e
        if cur:
            blocks.append(cur)
        return blocks

    def h():
        cfg = {}
        for i, L in enumerate(lens):
            cfg[(0x0100 + i, 0x10 + i)] = sym.sym_bytes("c%d_" % i, L)
        extra = [sym.sym_bytes("x", 3)]
        plain = bf.Bf3Component({0xC3: b"\x02"}, b"fw")
        if job.get("hist"):
            # an earlier package of the same process whose configuration component's tags were edited by the caller
            # afterwards (and a second call on that package): the next component's tags are the documented ones again
            earlier = bf.Bf3File({}, [])
            earlier.set_config({(0x0101, 0x01): sym.sym_bytes("e", 2)})
            ed = earlier.components[-1].description
            ed[0xC5] = b"\x00"
            ed[0xC4] = sym.sym_bytes("hw", 2)
            earlier.set_config({(0x0101, 0x02): b"\x05"})
            e2 = earlier.components[-1]
            if len(earlier.components) != 1 or list(e2.description.items()) != [(0xC3, b"\x03"), (0xC2, b"\x02"), (0xC1, b"\x03"), (0xC5, b"\x01")]:
                runner.record_witness(cfg={}, extra=b"", why="second call on the edited package")
                return False
            e2.description[0xC8] = b"\x01\x02\x03\x04\x05"
        f = bf.Bf3File({}, [plain])
        f.set_config(cfg, extra)
        c = f.components[-1]
        ok = len(f.components) == 2 and f.components[0] is plain
        ok = ok and list(c.description.items()) == [(0xC3, b"\x03"), (0xC2, b"\x02"), (0xC1, b"\x03"), (0xC5, b"\x01")] and c.encrypt_by_session_key is True and c.actual_len == len(c.blob)
        if ok:
            want = b""
            for blk in ref_blocks(sorted(cfg.items())) + extra:
                want += bytes([len(blk)]) + blk
            want += b"\x00"
            ok = c.blob == want
        if not ok:
            runner.record_witness(cfg={str(k): v for k, v in cfg.items()}, extra=extra[0])
        return ok

    res = runner.run(h, job["timeout"] - 60, job["timeout"] - 60)
    res["symbolic_dims"] = sum(lens) + 3
    if res["verdict"] == "violated":
        res["signature"] = "C10:setconfig-framing"
    return res


def replay(job):
    """concrete run of the real functions against a concrete decoder"""
    import register_crypto_plugin  # noqa
    from bec2format import bf3file as bf

    if job.get("twin"):
        return dict(reproduced=True, signature="twin")
    w = job.get("witness") or {}
    if job["kind"] == "setconfig":
        def unhex(x):
            return bytes.fromhex(x["hex"]) if isinstance(x, dict) else x

        cfg = {eval(k): unhex(v) for k, v in (w.get("cfg") or {}).items()}
        extra = [unhex(w.get("extra", {"hex": "010203"}))]
        if job.get("hist"):
            earlier = bf.Bf3File({}, [])
            earlier.set_config({(0x0101, 0x01): b"ab"})
            earlier.components[-1].description[0xC5] = b"\x00"
            earlier.components[-1].description[0xC4] = b"\x00\x9b"
            earlier.set_config({(0x0101, 0x02): b"\x05"})
            d2 = dict(earlier.components[-1].description)
            earlier.components[-1].description[0xC8] = b"\x01\x02\x03\x04\x05"
            if not cfg:
                cfg = {(0x0100, 0x10): b"\x01\x02", (0x0101, 0x11): b"\x03\x04\x05"}
            f = bf.Bf3File({}, [bf.Bf3Component({0xC3: b"\x02"}, b"fw")])
            f.set_config(cfg, extra)
            d3 = dict(f.components[-1].description)
            want = {0xC3: b"\x03", 0xC2: b"\x02", 0xC1: b"\x03", 0xC5: b"\x01"}
            return dict(reproduced=d2 != want or d3 != want, signature="C10:setconfig-framing", detail="set_config after the caller edited the tags of an earlier configuration component: new component tags %r / %r, documented %r" % (d2, d3, want))
        f = bf.Bf3File({}, [bf.Bf3Component({0xC3: b"\x02"}, b"fw")])
        f.set_config(cfg, extra)
        c = f.components[-1]
        blob, i, blocks = c.blob, 0, []
        while i < len(blob) and blob[i] != 0:
            blocks.append(blob[i + 1 : i + 1 + blob[i]])
            i += 1 + blob[i]
        problems = []
        if blob[i:] != b"\x00":
            problems.append("terminator")
        if blocks[-1:] != extra:
            problems.append("extra block not last/unchanged")
        if any(len(b) == 0 or len(b) > 117 for b in blocks[:-1]) and all(len(v) + 6 <= 117 for v in cfg.values()):
            problems.append("block sizes %s" % [len(b) for b in blocks])
        got = []
        for b in blocks[:-1]:
            j = 0
            while j < len(b):
                key = b[j + 1] * 256 + b[j + 2]
                j += 3
                while j < len(b) and b[j] != 0xFF:
                    got.append(((key, b[j]), b[j + 2 : j + 2 + b[j + 1]]))
                    j += 2 + b[j + 1]
                j += 1
        if got != sorted(cfg.items()):
            problems.append("decoded entries differ")
        if list(c.description.items()) != [(0xC3, b"\x03"), (0xC2, b"\x02"), (0xC1, b"\x03"), (0xC5, b"\x01")] or c.encrypt_by_session_key is not True:
            problems.append("tags/flag")
        return dict(reproduced=bool(problems), signature="C10:setconfig-framing", detail="; ".join(problems))
    ents = w.get("entries") or []
    cfg = {}
    for kind, key, v, L in ents:
        if kind == "delkey":
            cfg[(key, None)] = None
        elif kind == "delval":
            cfg[(key, v)] = None
        else:
            cfg[(key, v)] = bytes([0xA0 + (len(cfg) % 16)]) * (L or 0)
    try:
        blocks = bf.conf_dict_to_tlv(cfg)
    except Exception as e:
        return dict(reproduced=True, signature="C10:tlv", detail="conf_dict_to_tlv raised %s: %s for %r" % (type(e).__name__, e, cfg))
    # concrete decode
    ops = []
    problems = []
    fits = all(6 + len(c) <= 117 for c in cfg.values() if c is not None)
    for b in blocks:
        if len(b) == 0:
            problems.append("empty block")
            continue
        if fits and len(b) > 117:
            problems.append("block of %d bytes" % len(b))
        i = 0
        while i < len(b):
            t, key = b[i], b[i + 1] * 256 + b[i + 2]
            i += 3
            if t == 2:
                ops.append(("delkey", key))
                continue
            while i < len(b):
                v = b[i]
                if v == 0xFF:
                    i += 1
                    break
                ln = b[i + 1]
                if ln == 0xFF:
                    ops.append(("delval", key, v))
                    i += 2
                else:
                    ops.append(("set", key, v, b[i + 2 : i + 2 + ln]))
                    i += 2 + ln
    dels = sorted([(k, -1 if v is None else v) for (k, v), c in cfg.items() if v is None or c is None])
    sets = sorted([(k, v, c) for (k, v), c in cfg.items() if v is not None and c is not None])
    want = [("delkey", k) if v == -1 else ("delval", k, v) for k, v in dels] + [("set", k, v, c) for k, v, c in sets]
    if ops != want and not problems:
        problems.append("decoded %r, expected %r" % (ops, want))
    sig = "C10:empty-block" if any("empty" in p for p in problems) else "C10:tlv"
    return dict(reproduced=bool(problems), signature=sig, detail=("; ".join(problems) + " | config %r -> block lengths %s" % ({k: (None if c is None else len(c)) for k, c in cfg.items()}, [len(b) for b in blocks]))[:700])
