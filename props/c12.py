"""C12 - configuration identifiers match the config and their text form round-trips."""
import ast
import itertools
import os
import re
import string

PROPERTY = "C12"
FILES = ["bec2format/configid.py", "bec2format/bf3file.py", "bec2format/bec2file.py"]
META = dict(
    level="other",
    engines="AC",
    files=FILES,
    technique="(A) bounded symbolic execution of ConfigId.create_from_prj_settings / create_from_dev_settings (CrossHair/z3) over all subsets of the naming values with symbolic value bytes; (C) SMT string/LIA queries (z3 + cvc5) generated from the literals and branch structure extracted from the AST of __init__, cfgid_str, __str__ and create_from_str: print/parse round trips over full digit ranges and unbounded names",
    level_text="Solver verdict over all values of every naming field (all byte widths 1..4) for every subset of the 0x0620 values: the derived identifier denotes exactly those values, falls back to the name-only form, raises the documented errors.  Solver verdict over customer 0..99999 (except 9999), project/device 0..9999, version 0..99 as digit variables and names as unbounded single-line strings: parse(print(id)) == id, print(parse(t)) == t for canonical text, text matching neither pattern raises ConfigIdFormatError.",
    level_note="The string part is a *model*: str.format('{:0N}') is modelled as N zero-padded decimal digits, int() of an ASCII digit string as its value, re.match by the two pattern templates whose parameters (group widths, separators, literals, optional tail group, greedy last occurrence) are read from the stdlib's own regex parser; \\d is modelled as ASCII digits (Unicode decimal digits are outside). The model is validated against the real class on a corpus at start-up (translator validation); syntax the extractor does not recognise makes the check inconclusive (exit 2), never green.",
    explanation="Bounded symbolic verification: Engine A for the bytes->fields constructors, Engine C for the text form. Each SMT query fixes the None-pattern of the identifier (which of customer/project/device/name are None) and leaves digits and name symbolic.",
    functions=["ConfigId.__init__", "ConfigId.create_from_prj_settings", "ConfigId.create_from_dev_settings", "ConfigId.create_from_str", "ConfigId.__str__", "ConfigId.cfgid_str", "ConfigId.is_device_settings", "ConfigId.is_baltech_naming_scheme", "ConfigId.__eq__"],
    stubs=[],
    assumptions=["models of str.format / int / re.match as stated; validated on a corpus of >= 400 identifiers and strings per run"],
    bounds=dict(quick="all 32 + 16 subsets of naming values with widths {1,4}; all None-patterns; names unbounded", thorough="widths 1..4"),
    outside=["CPython's re engine and str.format themselves", "Unicode decimal digits", "names with line breaks"],
)


class Unsupported(Exception):
    pass


def extract():
    from vlib import common

    src = open(os.path.join(common.REPO, "bec2format", "configid.py")).read()
    tree = ast.parse(src)
    P = dict(UNKNOWN=None, init_none=set(), back=set())
    for n in tree.body:
        if isinstance(n, ast.Assign) and getattr(n.targets[0], "id", None) == "UNKNOWN":
            P["UNKNOWN"] = ast.literal_eval(n.value)
    cls = [n for n in tree.body if isinstance(n, ast.ClassDef) and n.name == "ConfigId"][0]
    fn = {f.name: f for f in cls.body if isinstance(f, ast.FunctionDef)}
    for st in fn["__init__"].body:
        if isinstance(st, ast.Assign):
            t = ast.unparse(st.targets[0])
            v = ast.unparse(st.value)
            f = t.replace("self.", "")
            if v == "%s if %s != UNKNOWN else None" % (f, f):
                P["init_none"].add(f)
            elif v != f:
                raise Unsupported("__init__: " + ast.unparse(st))
    r = fn["is_device_settings"].body[-1]
    if not isinstance(r, ast.Return) or any(not isinstance(x, (ast.Expr, ast.Return)) for x in fn["is_device_settings"].body):
        raise Unsupported("is_device_settings")
    P["isdev_expr"] = r.value
    device_cond(r.value, "0", False)  # raises Unsupported for forms outside the translated fragment
    if ast.unparse(fn["is_baltech_naming_scheme"].body[-1]) != "return self.customer is not None":
        raise Unsupported("is_baltech_naming_scheme")
    # __str__
    s = fn["__str__"].body[-1]
    if not (isinstance(s, ast.If) and ast.unparse(s.test) == "self.is_baltech_naming_scheme"):
        raise Unsupported("__str__ shape")
    if ast.unparse(s.body[0]) != "return self.cfgid_str + (' ' + self.name if self.name else '')":
        raise Unsupported("__str__ baltech branch: " + ast.unparse(s.body[0]))
    ret = s.orelse[0]
    call = ret.value
    if not (isinstance(call, ast.Call) and isinstance(call.func, ast.Attribute) and call.func.attr == "format" and isinstance(call.func.value, ast.Constant)):
        raise Unsupported("__str__ name-only branch")
    if sorted((k.arg, ast.unparse(k.value)) for k in call.keywords) != [("name", "self.name"), ("version", "self.version")]:
        raise Unsupported("__str__ name-only kwargs")
    P["fmt_nameonly"] = call.func.value.value
    # cfgid_str
    c = fn["cfgid_str"].body[-1]
    if not (isinstance(c, ast.If) and ast.unparse(c.test) == "self.is_baltech_naming_scheme"):
        raise Unsupported("cfgid_str shape")
    kw = None
    subst = {}
    for st in c.body:
        if isinstance(st, ast.Assign):
            m = re.fullmatch(r"UNKNOWN if self\.(\w+) is None else self\.(\w+)", ast.unparse(st.value))
            if not m or m.group(1) != m.group(2):
                raise Unsupported("cfgid_str assignment: " + ast.unparse(st))
            subst[st.targets[0].id] = m.group(1)
            P["back"].add(m.group(1))
        elif isinstance(st, ast.If):
            if ast.unparse(st.test) != "self.is_device_settings":
                raise Unsupported("cfgid_str inner if")
            P["fmt_dev"] = st.body[0].value.value
            P["fmt_gen"] = st.orelse[0].value.value
        elif isinstance(st, ast.Return):
            kw = {k.arg: ast.unparse(k.value) for k in st.value.keywords}
        else:
            raise Unsupported("cfgid_str statement")
    P["fmt_src"] = {}
    for name, src_ in (kw or {}).items():
        if src_.startswith("self."):
            P["fmt_src"][name] = (src_[5:], False)
        elif src_ in subst:
            P["fmt_src"][name] = (subst[src_], True)
        else:
            raise Unsupported("format kwarg " + src_)
    # create_from_str
    pats, maps = [], []
    for n in ast.walk(fn["create_from_str"]):
        if isinstance(n, ast.Call) and ast.unparse(n.func) == "re.match":
            pats.append(n.args[0].value)
        if isinstance(n, ast.Call) and ast.unparse(n.func) == "cls":
            maps.append({k.arg: ast.unparse(k.value) for k in n.keywords})
    if len(pats) != 2 or len(maps) != 2:
        raise Unsupported("create_from_str shape")
    P["pat1"], P["pat2"], P["map1"], P["map2"] = pats[0], pats[1], maps[0], maps[1]
    P["t1"] = template1(pats[0], maps[0])
    P["t2"] = template2(pats[1], maps[1])
    return P


def device_cond(node, dtxt, none):
    """SMT text of a boolean expression over self.device (value text `dtxt`, or None when `none`): comparisons with integer
    constants, `is None` / `is not None`, truthiness, not/and/or.  Ordering comparisons of None raise TypeError in Python:
    outside the fragment."""
    def val(n):
        return ast.unparse(n) == "self.device"

    def tr(n, boolctx=True):
        if isinstance(n, ast.Constant) and isinstance(n.value, bool):
            return "true" if n.value else "false"
        if val(n):
            return "false" if none else "(not (= %s 0))" % dtxt
        if isinstance(n, ast.UnaryOp) and isinstance(n.op, ast.Not):
            return "(not %s)" % tr(n.operand)
        if isinstance(n, ast.BoolOp):
            # operands are boolean sub-terms (truthiness); the result is used as a boolean only
            return "(%s %s)" % ("and" if isinstance(n.op, ast.And) else "or", " ".join(tr(v) for v in n.values))
        if isinstance(n, ast.Compare) and len(n.ops) == 1:
            a, op, b = n.left, n.ops[0], n.comparators[0]
            if isinstance(b, ast.Constant) and b.value is None and val(a) and isinstance(op, (ast.Is, ast.IsNot, ast.Eq, ast.NotEq)):
                r = "true" if none else "false"
                return r if isinstance(op, (ast.Is, ast.Eq)) else "(not %s)" % r
            if val(b) and isinstance(a, ast.Constant):
                a, b = b, a
                op = {ast.Lt: ast.Gt, ast.Gt: ast.Lt, ast.LtE: ast.GtE, ast.GtE: ast.LtE}.get(type(op), type(op))()
            if val(a) and isinstance(b, ast.Constant) and type(b.value) is int:
                if isinstance(op, ast.Eq):
                    return "false" if none else "(= %s %d)" % (dtxt, b.value)
                if isinstance(op, ast.NotEq):
                    return "true" if none else "(not (= %s %d))" % (dtxt, b.value)
                sym = {ast.Lt: "<", ast.LtE: "<=", ast.Gt: ">", ast.GtE: ">="}.get(type(op))
                if sym and not none:
                    return "(%s %s %d)" % (sym, dtxt, b.value)
        raise Unsupported("is_device_settings: " + ast.unparse(node))

    return tr(node)


def simp_bool(text):
    """closed boolean SMT terms are folded to "true"/"false" (z3 simplifier); others are returned unchanged"""
    if text in ("true", "false"):
        return text
    import z3

    try:
        f = z3.simplify(z3.And(*z3.parse_smt2_string("(assert %s)" % text)))
    except z3.Z3Exception:
        return text
    return "true" if z3.is_true(f) else "false" if z3.is_false(f) else text


def const_cond(text):
    r = simp_bool(text)
    if r not in ("true", "false"):
        raise Unsupported("is_device_settings condition not closed: " + text)
    return r


def _digits_group(item):
    import re._parser as sp

    op, av = item
    if str(op) != "SUBPATTERN":
        return None
    gid, _, _, body = av
    if len(body) == 1 and str(body[0][0]) == "MAX_REPEAT":
        lo, hi, inner = body[0][1]
        if lo == hi and len(inner) == 1 and str(inner[0][0]) == "IN" and [str(x[0]) + str(x[1]) for x in inner[0][1]] == ["CATEGORYCATEGORY_DIGIT"]:
            return gid, lo
    return None


def template1(pat, mp):
    """(\\d{a})SEP(\\d{b})SEP(\\d{c})SEP(\\d{d})( (.*))? -> [(field, width) ...], seps, tail literal, name group"""
    import re._parser as sp

    items = list(sp.parse(pat))
    seq, seps = [], []
    i = 0
    g2f = {}
    for f, src in mp.items():
        m = re.fullmatch(r"int\(mobj\.group\((\d)\)\)", src)
        if m:
            g2f[int(m.group(1))] = f
        elif f == "name":
            m = re.fullmatch(r"mobj\.group\((\d)\)", src)
            if not m:
                raise Unsupported("name source " + src)
            name_group = int(m.group(1))
        else:
            raise Unsupported("map1 " + src)
    while i < len(items):
        dg = _digits_group(items[i])
        if dg:
            seq.append((g2f.get(dg[0]), dg[1]))
            i += 1
            if i < len(items) and str(items[i][0]) == "LITERAL":
                seps.append(chr(items[i][1]))
                i += 1
            continue
        break
    rest = items[i:]
    if len(rest) != 1 or str(rest[0][0]) != "MAX_REPEAT" or rest[0][1][0] != 0 or rest[0][1][1] != 1:
        raise Unsupported("pattern1 tail")
    sub = rest[0][1][2]
    if not (len(sub) == 1 and str(sub[0][0]) == "SUBPATTERN"):
        raise Unsupported("pattern1 tail group")
    body = sub[0][1][3]
    if not (len(body) == 2 and str(body[0][0]) == "LITERAL" and str(body[1][0]) == "SUBPATTERN" and body[1][1][0] == name_group):
        raise Unsupported("pattern1 tail body")
    inner = body[1][1][3]
    if not (len(inner) == 1 and str(inner[0][0]) == "MAX_REPEAT" and inner[0][1][0] == 0 and str(inner[0][1][2][0][0]) == "ANY"):
        raise Unsupported("pattern1 name group")
    if len(seq) != 4 or len(seps) != 3 or any(f is None for f, _ in seq):
        raise Unsupported("pattern1 groups")
    return dict(seq=seq, seps=seps, tail=chr(body[0][1]))


def template2(pat, mp):
    """(.*)LIT(\\d{n})LIT"""
    import re._parser as sp

    items = list(sp.parse(pat))
    if str(items[0][0]) != "SUBPATTERN" or str(items[0][1][3][0][0]) not in ("MAX_REPEAT", "MIN_REPEAT") or str(items[0][1][3][0][1][2][0][0]) != "ANY":
        raise Unsupported("pattern2 head")
    greedy = str(items[0][1][3][0][0]) == "MAX_REPEAT"
    lit1, i = "", 1
    while str(items[i][0]) == "LITERAL":
        lit1 += chr(items[i][1])
        i += 1
    dg = _digits_group(items[i])
    if not dg:
        raise Unsupported("pattern2 digits")
    lit2 = "".join(chr(x[1]) for x in items[i + 1 :] if str(x[0]) == "LITERAL")
    if len(lit2) != len(items) - i - 1:
        raise Unsupported("pattern2 tail")
    if mp.get("version") != "int(mobj.group(%d))" % dg[0] or mp.get("name") != "str(mobj.group(%d))" % items[0][1][0]:
        raise Unsupported("map2")
    if any(mp.get(f) != "None" for f in ("customer", "project", "device")):
        raise Unsupported("map2 none fields")
    return dict(lit1=lit1, width=dg[1], lit2=lit2, greedy=greedy)


# ---------------------------------------------------------------------------
# concrete mirror of the model (translator validation)


def model_print(P, c, p, d, v, name):
    """fields after __init__ mapping (None = None); returns text or ('TypeError',)"""
    if c is not None:
        import types

        is_dev = bool(eval(compile(ast.Expression(P["isdev_expr"]), "<is_device_settings>", "eval"), {"self": types.SimpleNamespace(device=d)}))
        fmt = P["fmt_dev"] if is_dev else P["fmt_gen"]
        vals = dict(customer=c, project=p, device=d, version=v)
        out = ""
        for lit, field, spec, _ in string.Formatter().parse(fmt):
            out += lit
            if field is None:
                continue
            srcf, back = P["fmt_src"][field]
            val = vals[srcf]
            if val is None:
                if back:
                    val = P["UNKNOWN"]
                else:
                    return ("TypeError",)
            m = re.fullmatch(r"0(\d)", spec or "")
            if not m and spec:
                raise Unsupported("format spec " + repr(spec))
            out += str(val).rjust(int(m.group(1)) if m else 0, "0")
        return out + (" " + name if name else "")
    out = ""
    for lit, field, spec, _ in string.Formatter().parse(P["fmt_nameonly"]):
        out += lit
        if field == "name":
            out += str(name)
        elif field == "version":
            out += str(v).rjust(int(spec[1:]) if spec else 0, "0")
    return out


def model_parse(P, s):
    t1, t2 = P["t1"], P["t2"]
    pos, vals, ok = 0, {}, True
    for k, (f, w) in enumerate(t1["seq"]):
        seg = s[pos : pos + w]
        if len(seg) != w or not all(ch in "0123456789" for ch in seg):
            ok = False
            break
        vals[f] = int(seg)
        pos += w
        if k < 3:
            if s[pos : pos + 1] != t1["seps"][k]:
                ok = False
                break
            pos += 1
    if ok:
        name = None
        if s[pos : pos + 1] == t1["tail"]:
            name = s[pos + 1 :].split("\n")[0]
        return init_map(P, vals["customer"], vals["project"], vals["device"], vals["version"], name)
    line = s.split("\n")[0]
    need = len(t2["lit1"]) + t2["width"] + len(t2["lit2"])
    rng = range(len(line) - need, -1, -1) if t2.get("greedy", True) else range(0, len(line) - need + 1)
    for i in rng:
        seg = line[i : i + need]
        dig = seg[len(t2["lit1"]) : len(t2["lit1"]) + t2["width"]]
        if seg.startswith(t2["lit1"]) and seg.endswith(t2["lit2"]) and all(ch in "0123456789" for ch in dig):
            return init_map(P, None, None, None, int(dig), line[:i])
    return ("FormatError",)


def init_map(P, c, p, d, v, name):
    m = lambda f, x: None if (f in P["init_none"] and x == P["UNKNOWN"]) else x
    return (m("customer", c), m("project", p), m("device", d), v, name)


def validate_model(P):
    """model vs real class on a corpus"""
    import random
    from bec2format.configid import ConfigId
    from bec2format.error import ConfigIdFormatError

    rnd = random.Random(5)
    n = 0
    names = [None, "x", "Name 1", "a (version 07)", "12345-1234-1234-12 z", " lead", "trail ", "ü", "(version 1)"]
    for _ in range(300):
        c = rnd.choice([None, 0, 1, 9998, 9999, 10000, 99999, rnd.randrange(100000)])
        p, d = rnd.choice([0, 9999, rnd.randrange(10000)]), rnd.choice([0, 1, 9999, rnd.randrange(10000)])
        v, name = rnd.randrange(100), rnd.choice(names)
        if c is None:
            p = d = None
            if name is None:
                name = "n"
        obj = ConfigId(c, p, d, v, name)
        fields = (obj.customer, obj.project, obj.device, obj.version, obj.name)
        if fields != init_map(P, c, p, d, v, name):
            return "init mapping differs for %r" % ((c, p, d, v, name),)
        try:
            real = str(obj)
        except TypeError:
            real = ("TypeError",)
        if real != model_print(P, *fields):
            return "print differs for %r: real %r model %r" % (fields, real, model_print(P, *fields))
        n += 1
    texts = ["12345-1234-1234-12", "12345-1234-1234-12 name", "12345-1234-1234-1", "09999-0001-0000-07 x", "abc (version 05)", "abc (version 5)", "a (version 01) (version 02)", "", "12345-1234-1234-12x", "x\ny (version 03)", "12345-9999-9999-99", " (version 00)", "00000-0000-0000-00 ", "1234-1234-1234-12 (version 12)"]
    for _ in range(150):
        texts.append("".join(rnd.choice("0123456789- (version)ab") for _ in range(rnd.randrange(0, 30))))
    for t in texts:
        try:
            o = ConfigId.create_from_str(t)
            real = (o.customer, o.project, o.device, o.version, o.name)
        except ConfigIdFormatError:
            real = ("FormatError",)
        if real != model_parse(P, t):
            return "parse differs for %r: real %r model %r" % (t, real, model_parse(P, t))
        n += 1
    return n


# ---------------------------------------------------------------------------
# SMT generation


def smt_header():
    return ["(set-logic ALL)", "(set-option :produce-models true)", '(define-fun dch ((d Int)) String (str.from_code (+ 48 d)))', '(define-fun isd ((c String)) Bool (and (= (str.len c) 1) (<= 48 (str.to_code c)) (<= (str.to_code c) 57)))', '(define-fun dv ((c String)) Int (- (str.to_code c) 48))']


def lit(s):
    from vlib.enginec import smt

    return smt.smt_str(s)


def declare_digits(L, name, w):
    ds = ["%s%d" % (name, i) for i in range(w)]
    for d in ds:
        L.append("(declare-const %s Int)(assert (and (<= 0 %s) (<= %s 9)))" % (d, d, d))
    val = "(+ " + " ".join("(* %d %s)" % (10 ** (w - 1 - i), d) for i, d in enumerate(ds)) + " 0)"
    txt = "(str.++ " + " ".join("(dch %s)" % d for d in ds) + ' "")'
    return ds, val, txt


def const_digits(value, w):
    return lit(str(value).rjust(w, "0"))


def print_expr(P, L, nonepat, name_mode):
    """SMT string expression of str(id) for a Baltech-scheme id with the given None pattern
    (project None / device None); returns (expr, outcome) where outcome 'TypeError' if formatting None"""
    fmts = {"dev": P["fmt_dev"], "gen": P["fmt_gen"]}
    return fmts


def parse_t1_conditions(P, s):
    """SMT: (match condition, {field: int expr}, name-none expr, name expr) of template 1 on string s"""
    t1 = P["t1"]
    conds, vals, pos = [], {}, 0
    for k, (f, w) in enumerate(t1["seq"]):
        digs = []
        for i in range(w):
            ch = "(str.at %s %d)" % (s, pos + i)
            conds.append("(isd %s)" % ch)
            digs.append("(* %d (dv %s))" % (10 ** (w - 1 - i), ch))
        vals[f] = "(+ " + " ".join(digs) + " 0)"
        pos += w
        if k < 3:
            conds.append("(= (str.at %s %d) %s)" % (s, pos, lit(t1["seps"][k])))
            pos += 1
    match = "(and " + " ".join(conds) + ")"
    has_name = "(= (str.at %s %d) %s)" % (s, pos, lit(t1["tail"]))
    rest = "(str.substr %s %d (str.len %s))" % (s, pos + 1, s)
    nl = '(str.indexof %s "\\u{a}" 0)' % rest
    name = "(ite (< %s 0) %s (str.substr %s 0 %s))" % (nl, rest, rest, nl)
    return match, vals, has_name, name, pos


def run_text_query(P, q):
    """build and solve one text query; returns (result, witness, smt_seconds)"""
    from vlib.enginec import smt

    U = P["UNKNOWN"]
    L = smt_header()
    kind = q["q"]
    t1, t2 = P["t1"], P["t2"]
    widths = {f: w for f, w in t1["seq"]}
    get = []
    if kind in ("print-parse-baltech", "canon1"):
        # None pattern of the *printed/parsed* id
        pN, dN, nN = q.get("pN", False), q.get("dN", False), q.get("nN", True)
        _, cval, ctxt = declare_digits(L, "c", widths["customer"])
        L.append("(assert (not (= %s %d)))" % (cval, U))
        if pN:
            pval, ptxt = str(U), const_digits(U, widths["project"])
        else:
            _, pval, ptxt = declare_digits(L, "p", widths["project"])
            L.append("(assert (not (= %s %d)))" % (pval, U))
        if dN:
            dval, dtxt = str(U), const_digits(U, widths["device"])
        else:
            _, dval, dtxt = declare_digits(L, "d", widths["device"])
            L.append("(assert (not (= %s %d)))" % (dval, U))
        _, vval, vtxt = declare_digits(L, "v", widths["version"])
        get += ["c%d" % i for i in range(widths["customer"])]
        if not nN:
            L.append('(declare-const name String)(assert (not (= name "")))(assert (not (str.contains name "\\u{a}")))')
            get.append("name")
        # printing: which format, which fields are None after __init__ mapping
        pn_after = pN and "project" in P["init_none"]
        dn_after = dN and "device" in P["init_none"]
        if kind == "print-parse-baltech":
            def field_txt(field):
                srcf, back = P["fmt_src"][field]
                none_after = {"customer": False, "project": pn_after, "device": dn_after, "version": False}[srcf]
                if none_after and not back:
                    return None
                return {"customer": ctxt, "project": ptxt, "device": dtxt, "version": vtxt}[srcf]

            # is_device_settings: device == 0 (never when device is None)
            variants = []
            for isdev in (True, False):
                fmt = P["fmt_dev"] if isdev else P["fmt_gen"]
                parts, typeerr = [], False
                for litx, field, spec, _ in string.Formatter().parse(fmt):
                    if litx:
                        parts.append(lit(litx))
                    if field is None:
                        continue
                    m = re.fullmatch(r"0(\d)", spec or "")
                    if not m or int(m.group(1)) != widths[P["fmt_src"][field][0]]:
                        if not m and spec:
                            raise Unsupported("format spec %r" % spec)
                        w = int(m.group(1)) if m else 1  # no spec: plain decimal, no padding
                        srcf = P["fmt_src"][field][0]
                        if w > widths[srcf]:
                            parts.append(lit("0" * (w - widths[srcf])))
                        elif w < widths[srcf]:
                            # narrower minimum width: leading zeros beyond the minimum are dropped
                            ft = field_txt(field)
                            if ft is None:
                                typeerr = True
                                continue
                            parts.append("(nolead%d %s)" % (w, ft))
                            continue
                    ft = field_txt(field)
                    if ft is None:
                        typeerr = True
                    else:
                        parts.append(ft)
                variants.append((isdev, parts, typeerr))
            L.append("(define-fun-rec nolead1 ((s String)) String (ite (and (> (str.len s) 1) (= (str.at s 0) \"0\")) (nolead1 (str.substr s 1 (str.len s))) s))")
            L.append("(define-fun nolead2 ((s String)) String (ite (and (> (str.len s) 2) (= (str.at s 0) \"0\")) (nolead1 (str.substr s 1 (str.len s))) s))")
            isdev_cond = simp_bool(device_cond(P["isdev_expr"], dval, dn_after))
            if dN and isdev_cond not in ("true", "false"):
                isdev_cond = const_cond(isdev_cond)
            if isdev_cond not in ("false", "true") and "isdev" in q:
                # case split handed to separate queries (keeps the ite out of the string term)
                L.append("(assert %s)" % (isdev_cond if q["isdev"] else "(not %s)" % isdev_cond))
                isdev_cond = "true" if q["isdev"] else "false"
            if variants[0][2] and isdev_cond != "false" or variants[1][2]:
                # some reachable branch formats None: TypeError for these ids
                return "sat", {"outcome": "TypeError when printing", "pN": pN, "dN": dN}, 0.0
            sdev = "(str.++ " + " ".join(variants[0][1]) + ' "")'
            sgen = "(str.++ " + " ".join(variants[1][1]) + ' "")'
            base = sgen if isdev_cond == "false" else sdev if isdev_cond == "true" else "(ite %s %s %s)" % (isdev_cond, sdev, sgen)
            s = base if nN else "(str.++ %s \" \" name)" % base
        else:
            # canonical text of form 1: digits, separators, optional ' ' + name
            seq = [ctxt, lit(t1["seps"][0]), ptxt, lit(t1["seps"][1]), dtxt, lit(t1["seps"][2]), vtxt]
            s = "(str.++ " + " ".join(seq) + (' "")' if nN else " %s name)" % lit(t1["tail"]))
        L.append("(define-fun s () String %s)" % s)
        match, vals, has_name, pname, pos = parse_t1_conditions(P, "s")
        # expected fields after parsing + __init__ mapping
        def mapped_equal(f, parsed, orig_val, orig_none):
            if f in P["init_none"]:
                pnone = "(= %s %d)" % (parsed, U)
            else:
                pnone = "false"
            if orig_none:
                return pnone
            return "(and (not %s) (= %s %s))" % (pnone, parsed, orig_val)

        eqs = [mapped_equal("customer", vals["customer"], cval, False), mapped_equal("project", vals["project"], pval, pn_after if kind == "print-parse-baltech" else (pN and "project" in P["init_none"])), mapped_equal("device", vals["device"], dval, dn_after if kind == "print-parse-baltech" else (dN and "device" in P["init_none"])), "(= %s %s)" % (vals["version"], vval)]
        if nN:
            eqs.append("(not %s)" % has_name)
        else:
            eqs.append("(and %s (= %s name))" % (has_name, pname))
        if kind == "print-parse-baltech":
            L.append("(assert (not (and %s %s)))" % (match, " ".join(eqs)))
        else:
            # print(parse(t)) == t : parse must match template 1 with these fields, then printing gives t back.
            # With parse == fields shown, printing is the print-parse query's format; here: t is reproduced iff
            # the formats' literals/widths equal the pattern's (checked by the print-parse queries) - so the
            # obligation is parse(t) == fields.
            L.append("(assert (not (and %s %s)))" % (match, " ".join(eqs)))
    elif kind in ("print-parse-nameonly", "nameonly-adversarial", "canon2"):
        L.append('(declare-const name String)(assert (not (= name "")))(assert (not (str.contains name "\\u{a}")))')
        _, vval, vtxt = declare_digits(L, "v", t2["width"])
        get += ["name", "v0", "v1"]
        parts = []
        if kind == "canon2":
            parts = ["name", lit(t2["lit1"]), vtxt, lit(t2["lit2"])]
        else:
            for litx, field, spec, _ in string.Formatter().parse(P["fmt_nameonly"]):
                if litx:
                    parts.append(lit(litx))
                if field == "name":
                    parts.append("name")
                elif field == "version":
                    m = re.fullmatch(r"0(\d)", spec or "")
                    if not m:
                        parts.append("(nolead1 %s)" % vtxt)
                    else:
                        w = int(m.group(1))
                        parts.append(vtxt if w == t2["width"] else ("(str.++ %s %s)" % (lit("0" * (w - t2["width"])), vtxt) if w > t2["width"] else "(nolead1 %s)" % vtxt))
        L.append("(define-fun-rec nolead1 ((s String)) String (ite (and (> (str.len s) 1) (= (str.at s 0) \"0\")) (nolead1 (str.substr s 1 (str.len s))) s))")
        L.append("(define-fun s () String (str.++ %s \"\"))" % " ".join(parts))
        match1, vals, has_name, pname, pos = parse_t1_conditions(P, "s")
        # template 2 on s: greedy (.*) = the LAST position i (within the first line) where lit1 d.. lit2 occurs
        need = len(t2["lit1"]) + t2["width"] + len(t2["lit2"])
        L.append("(declare-const i Int)")
        seg = "(str.substr s i %d)" % need
        digc = " ".join("(isd (str.at s (+ i %d)))" % (len(t2["lit1"]) + k) for k in range(t2["width"]))
        occ = "(and (>= i 0) (<= (+ i %d) (str.len s)) (str.prefixof %s %s) (= (str.substr s (+ i %d) %d) %s) %s)" % (need, lit(t2["lit1"]), seg, len(t2["lit1"]) + t2["width"], len(t2["lit2"]), lit(t2["lit2"]), digc)
        pver = "(+ " + " ".join("(* %d (dv (str.at s (+ i %d))))" % (10 ** (t2["width"] - 1 - k), len(t2["lit1"]) + k) for k in range(t2["width"])) + " 0)"
        digre = " ".join('(re.range "0" "9")' for _ in range(t2["width"]))
        if t2.get("greedy", True):
            # greedy (.*): no further occurrence to the right
            later = "(str.in_re (str.substr s (+ i 1) (str.len s)) (re.++ re.all (str.to_re %s) %s (str.to_re %s) re.all))" % (lit(t2["lit1"]), digre, lit(t2["lit2"]))
        else:
            # lazy (.*?): no occurrence that starts further left
            later = "(str.in_re (str.substr s 0 (+ i %d)) (re.++ re.all (str.to_re %s) %s (str.to_re %s) re.all))" % (need - 1, lit(t2["lit1"]), digre, lit(t2["lit2"]))
        if kind == "nameonly-adversarial":
            # is there a name for which the printed text is read back as a numeric identifier?
            L.append("(assert %s)" % match1)
        else:
            L.append("(assert (not %s))" % match1)  # the name does not imitate the numeric form (else: adversarial query)
            L.append("(assert (= i (str.len name)))")
            L.append("(assert (not (and %s (not %s) (= (str.substr s 0 i) name) (= %s %s))))" % (occ, later, pver, vval))
    else:
        raise Unsupported(kind)
    L.append("(check-sat)")
    if get:
        L.append("(get-value (%s))" % " ".join(get))
    text = "\n".join(L)
    tot = 0.0
    for solver, to in (("z3-new", 60), ("cvc5", 300)):
        r = smt.run_smt(text, solver, timeout=to)
        tot += r["time_s"]
        if r["result"] in ("sat", "unsat"):
            wit = None
            if r["result"] == "sat":
                wit = {}
                for k_, v_ in re.findall(r'\((\w+) ((?:"(?:[^"]|"")*")|\d+|\(- \d+\))\)', r["output"]):
                    wit[k_] = re.sub(r"\\u\{([0-9a-fA-F]+)\}", lambda mo: chr(int(mo.group(1), 16)), v_[1:-1].replace('""', '"')) if v_.startswith('"') else int(v_.strip("()- "))
            return r["result"], wit, tot
    return "unknown", None, tot


def jobs(tier, seed):
    J = []
    widths = [1, 4] if tier == "quick" else [1, 2, 3, 4]
    for which, keys in (("prj", [1, 2, 5, 6, 7]), ("dev", [1, 2, 3, 4])):
        subs = []
        for r in range(len(keys) + 1):
            subs += list(itertools.combinations(keys, r))
        for w in widths:
            J.append(dict(name="from-config:%s:width%d" % (which, w), kind="fromcfg", which=which, subsets=[list(s) for s in subs], width=w, timeout=1500, cost=100))
    J.append(dict(name="text:model-validation", kind="validate", timeout=300))
    for pN, dN, nN in itertools.product((False, True), (False, True), (True, False)):
        for isdev in ((False,) if dN else (True, False)):
            J.append(dict(name="text:print-parse:project%s:device%s:name%s" % ("9999" if pN else "num", "9999" if dN else ("0" if isdev else "nonzero"), "absent" if nN else "present"), kind="text", q=dict(q="print-parse-baltech", pN=pN, dN=dN, nN=nN, isdev=isdev), timeout=900, cost=50))
        J.append(dict(name="text:canonical-form1:project%s:device%s:name%s" % ("9999" if pN else "num", "9999" if dN else "num", "absent" if nN else "present"), kind="text", q=dict(q="canon1", pN=pN, dN=dN, nN=nN), timeout=900, cost=50))
    J.append(dict(name="text:print-parse:name-only", kind="text", q=dict(q="print-parse-nameonly"), timeout=900, cost=80))
    J.append(dict(name="text:canonical-form2", kind="text", q=dict(q="canon2"), timeout=900, cost=80))
    J.append(dict(name="text:name-only:adversarial-name", kind="text", q=dict(q="nameonly-adversarial"), timeout=900, cost=80))
    return J


def run_job(job):
    from vlib import common

    common.setup_paths()
    kind = job["kind"]
    if kind == "fromcfg":
        return run_fromcfg(job)
    try:
        P = extract()
        if kind == "validate":
            r = validate_model(P)
            if isinstance(r, int):
                return dict(verdict="held", state="MODEL_OK", queries=1, solver_s=0.0, symbolic_dims=0, message="model of __init__/__str__/create_from_str agrees with the real class on %d identifiers/strings; extracted: UNKNOWN=%s init_none=%s substituted_back=%s formats=%r/%r/%r patterns=%r/%r" % (r, P["UNKNOWN"], sorted(P["init_none"]), sorted(P["back"]), P["fmt_dev"], P["fmt_gen"], P["fmt_nameonly"], P["pat1"], P["pat2"]))
            return dict(verdict="inconclusive", state="TRANSLATOR_MISMATCH", message=str(r), queries=1, solver_s=0.0)
        v = validate_model(P)
        if not isinstance(v, int):
            return dict(verdict="inconclusive", state="TRANSLATOR_MISMATCH", message=str(v), queries=0, solver_s=0.0)
        res, wit, secs = run_text_query(P, job["q"])
    except Unsupported as e:
        return dict(verdict="inconclusive", state="UNSUPPORTED_SYNTAX", message=str(e), queries=0, solver_s=0.0)
    out = dict(queries=1, solver_s=round(secs, 2), symbolic_dims=1, message="%s -> %s" % (job["q"], res))
    if res == "unknown":
        out.update(verdict="inconclusive", state="UNKNOWN")
    elif res == "unsat":
        out.update(verdict="held", state="UNSAT")
    else:
        sig = "C12:" + job["q"]["q"]
        if job["q"]["q"] == "nameonly-adversarial":
            sig = "C12:name-imitates-numeric-form"
        elif wit and wit.get("outcome", "").startswith("TypeError"):
            sig = "C12:print-raises-TypeError"
        out.update(verdict="violated", state="SAT", witness=wit, signature=sig)
    return out


def run_fromcfg(job):
    from vlib.enginea import sym, runner, stubs

    stubs.load_repo(real_adapter=False)
    from bec2format.configid import ConfigId
    from bec2format.error import MissingProjectSettingsNameError, MissingDeviceSettingsNameError

    which, w = job["which"], job["width"]
    subsets = job["subsets"]

    def h():
        k = sym.sym_int("subset", 0, len(subsets))
        sub = None
        for i, s in enumerate(subsets):
            if k == i:
                sub = s
                break
        cfg, vals = {}, {}
        for vid in sub:
            if (which == "prj" and vid == 6) or (which == "dev" and vid == 3):
                e = sym.sym_int("emptyname", 0, 2)
                cfg[(0x620, vid)] = b"" if e == 0 else b"Nm"
            else:
                cfg[(0x620, vid)] = sym.sym_bytes("v%d_" % vid, w)
                n = 0
                for b in cfg[(0x620, vid)]:
                    n = n * 256 + b
                vals[vid] = n
        namekey, verkey = (6, 7) if which == "prj" else (3, 4)
        Err = MissingProjectSettingsNameError if which == "prj" else MissingDeviceSettingsNameError
        name = cfg[(0x620, namekey)].decode() if (0x620, namekey) in cfg else None
        try:
            cid = ConfigId.create_from_prj_settings(cfg) if which == "prj" else ConfigId.create_from_dev_settings(cfg)
        except Err:
            # documented: version missing, or numeric scheme incomplete and no name
            numeric = (1 in sub and 5 in sub) if which == "prj" else (1 in sub)
            return bool(verkey not in sub or (not numeric and not name))
        numeric = (1 in sub and 5 in sub) if which == "prj" else (1 in sub)
        if verkey not in sub or (not numeric and not name):
            return False
        unk = lambda x: None if x == 9999 else x
        ok = cid.version == vals[verkey] and cid.name == name
        if numeric:
            ok = ok and cid.customer == unk(vals[1]) and cid.device == unk(vals.get(2, 0))
            ok = ok and (cid.project == unk(vals[5]) if which == "prj" else cid.project == 0)
        else:
            ok = ok and cid.customer is None and cid.device is None and (cid.project is None if which == "prj" else cid.project == 0)
        if not ok:
            runner.record_witness(subset=sub, cfg={str(kk): vv for kk, vv in cfg.items()})
        return bool(ok)

    res = runner.run(h, job["timeout"] - 60, job["timeout"] - 60)
    res["symbolic_dims"] = 4 * w
    if res["verdict"] == "violated":
        res["signature"] = "C12:from-config"
    return res


def replay(job):
    from vlib import common

    common.setup_paths()
    from bec2format.configid import ConfigId
    from bec2format.error import ConfigIdFormatError, FormatError

    w = job.get("witness") or {}
    kind = job["kind"]
    if kind == "fromcfg":
        def unhex(x):
            return bytes.fromhex(x["hex"]) if isinstance(x, dict) else x

        cfg = {eval(k): unhex(v) for k, v in (w.get("cfg") or {}).items()}
        which = job["which"]
        try:
            cid = ConfigId.create_from_prj_settings(cfg) if which == "prj" else ConfigId.create_from_dev_settings(cfg)
            got = (cid.customer, cid.project, cid.device, cid.version, cid.name)
        except FormatError as e:
            got = type(e).__name__
        except Exception as e:
            return dict(reproduced=True, signature="C12:from-config", detail="%s: %s for %r" % (type(e).__name__, e, cfg))
        g = lambda vid: int.from_bytes(cfg[(0x620, vid)], "big") if (0x620, vid) in cfg else None
        return dict(reproduced=True, signature="C12:from-config", detail="config %r -> %r (values customer=%s project=%s device=%s)" % (cfg, got, g(1), g(5), g(2)))
    q = job["q"]
    U = 9999

    def num(prefix, width, default):
        if prefix + "0" in w:
            return int("".join(str(w[prefix + str(i)]) for i in range(width)))
        return default

    if q["q"] in ("print-parse-baltech", "canon1"):
        c = num("c", 5, 12345)
        p = U if q.get("pN") else num("p", 4, 1)
        d = U if q.get("dN") else num("d", 4, 2)
        v = num("v", 2, 3)
        name = None if q.get("nN", True) else w.get("name", "n")
        if q["q"] == "print-parse-baltech":
            obj = ConfigId(c, p, d, v, name)
            try:
                t = str(obj)
            except Exception as e:
                return dict(reproduced=True, signature="C12:print-raises-%s" % type(e).__name__, detail="str(ConfigId(%r, %r, %r, %r, %r)) raises %s: %s" % (c, p, d, v, name, type(e).__name__, e))
            try:
                back = ConfigId.create_from_str(t)
            except ConfigIdFormatError as e:
                back = "ConfigIdFormatError"
            return dict(reproduced=back != obj, signature="C12:print-parse-baltech", detail="%r printed %r parsed %r" % (obj, t, back))
        t = "%05d-%04d-%04d-%02d" % (c, p, d, v) + ("" if name is None else " " + name)
        try:
            t2 = str(ConfigId.create_from_str(t))
        except Exception as e:
            return dict(reproduced=True, signature="C12:canon1-%s" % type(e).__name__, detail="%r: %s %s" % (t, type(e).__name__, e))
        return dict(reproduced=t2 != t, signature="C12:canon1", detail="%r -> %r" % (t, t2))
    name, v = w.get("name", "x"), num("v", 2, 5)
    if q["q"] == "canon2":
        t = "%s (version %02d)" % (name, v)
        try:
            t2 = str(ConfigId.create_from_str(t))
        except Exception as e:
            return dict(reproduced=True, signature="C12:canon2", detail="%r: %s" % (t, e))
        return dict(reproduced=t2 != t, signature="C12:canon2", detail="%r -> %r" % (t, t2))
    obj = ConfigId(None, None, None, v, name)
    t = str(obj)
    try:
        back = ConfigId.create_from_str(t)
    except ConfigIdFormatError as e:
        return dict(reproduced=True, signature="C12:" + q["q"], detail="%r printed %r does not parse" % (obj, t))
    sig = "C12:name-imitates-numeric-form" if q["q"] == "nameonly-adversarial" else "C12:print-parse-nameonly"
    return dict(reproduced=back != obj, signature=sig, detail="%r printed as %r parses as %r" % (obj, t, back))
