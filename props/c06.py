"""C06 - encrypted components are stored only as ciphertext and decrypt to
the original; no secret in clear; writing fails closed."""
import io

PROPERTY = "C06"
FILES = ["bec2format/bf3file.py", "bec2format/bec2file.py", "bec2format/crypto.py", "appnotes/register_crypto_plugin/__init__.py", "appnotes/register_crypto_plugin/pyaes/blockfeeder.py"]
CONFIG_DESC = [(0xC3, b"\x03"), (0xC2, b"\x02"), (0xC1, b"\x03"), (0xC5, b"\x01")]

META = dict(
    level="other",
    engines="A",
    files=FILES,
    technique="bounded symbolic execution of the real write/read path (CrossHair/z3) with AES-CBC as an uninterpreted bijection; secrecy as a 2-safety (non-interference) query with a fresh-output cipher; fail-closed by a raising cipher at every call index",
    level_text="Solver verdict over all content bytes and all key bytes for every content length in the bound: recovery (blob[:declared] == content, flag restored, stored payload == CBC_UF(key, 0, pad(content))), non-interference of the written bytes in the secrets, and no output on cipher failure.",
    level_note="Trusted: z3, CrossHair proxies, UF abstraction of AES-CBC (C16 proves the real class), fresh-output cipher model for the secrecy query (any byte that depends on a secret outside a cipher call breaks equality of the two runs), S-crc/S-sha UFs in BEC2 framing.",
    explanation="Bounded symbolic verification with CrossHair (z3): per concrete content length the real Bf3File.write_file/read_file (binary layer), Bf3Component.get_raw_data / from_encrypted_raw_data, Bf3File.set_config, the real adapter and block feeder run on symbolic content and key bytes; AES-CBC is an uninterpreted per-(key,prev) bijection. Secrecy: writer run twice with independent symbolic secrets and a cipher returning the same fresh symbolic bytes in call order; outputs must be equal byte for byte. Fail-closed: cipher raising at call k for every k.",
    functions=["Bf3File.write_file", "Bf3File.to_binary", "Bf3File.dir_to_binary", "Bf3Component.get_raw_data", "Bf3Component.from_encrypted_raw_data", "Bf3File.read_file", "Bf3File.from_binary", "Bf3File.set_config", "conf_dict_to_tlv", "Bec2File.write_file/to_binary/pack_auth_blocks/read_file/unpack_auth_blocks", "AesEncryptorMixin.encrypt/decrypt", "AES128Proxy.encrypt/decrypt/mac", "crypto.pad", "crypto.create_AES128"],
    stubs=["S-io", "S-cbc", "S-crc", "S-sha", "text-layer bypass (C01 lemmas)", "fresh-output cipher (secrecy query)", "raising cipher (fail-closed query)"],
    assumptions=["AES-CBC modelled as uninterpreted per-(key, previous block) bijection"],
    bounds=dict(quick="content lengths {1,15,16,17,31,32,33,47,48}; BF3 framing direct + via set_config (1-2 entries); BEC2 framing with customer-key block; secrecy for lengths {1,16,17,33} BF3 and BEC2 (cust, update blocks); fail-closed: every cipher call index of a 2-component file; histories: one file object written twice (content replaced / other key between the writes), 17-byte content", thorough="content lengths 1..64 direct; 1041-byte content (symbolic around the 1 KiB boundaries) through get_raw_data/from_encrypted_raw_data; set_config with 1..3 entries; secrecy lengths 1..48 step 5"),
    outside=["contents > 64 bytes", "side channels", "ECC block secrecy wiring (C09)"],
)

QUICK_LENS = [1, 15, 16, 17, 31, 32, 33, 47, 48]


def jobs(tier, seed):
    J = []
    lens = QUICK_LENS if tier == "quick" else list(range(1, 65))
    for n in lens:
        J.append(dict(name="rec:bf3:direct:n%d" % n, kind="rec", framing="bf3", how="direct", n=n, timeout=600, cost=n))
    for cfg in ([[3]], [[1, 20]], [[16, 0, 7]]) if tier == "quick" else ([[3]], [[1, 20]], [[16, 0, 7]], [[13]], [[14]], [[30, 30, 30]]):
        J.append(dict(name="rec:bf3:setconfig:%s" % cfg, kind="rec", framing="bf3", how="setconfig", cfg=cfg[0], timeout=600, cost=50))
    for n in ([1, 16, 33] if tier == "quick" else [1, 15, 16, 17, 32, 33, 48]):
        J.append(dict(name="rec:bec2:direct:n%d" % n, kind="rec", framing="bec2", how="direct", n=n, timeout=900, cost=100 + n))
    # long content (chaining across 1 KiB boundaries): 1041 bytes, symbolic at the block boundaries only
    if tier == "thorough":
        J.append(dict(name="stored:get_raw_data:n1041-sparse", kind="rawdata", n=1041, timeout=3000, cost=900))
    J.append(dict(name="stored:get_raw_data:n257-sparse", kind="rawdata", n=257, timeout=1500, cost=200))
    # the stored form depends on the component's current content and on the key of this write only
    for var in ("content-edit", "other-key"):
        J.append(dict(name="history:rewrite-after-%s" % var, kind="hist", var=var, n=17, timeout=600, cost=60))
    J.append(dict(name="rec:twin", kind="rec", framing="bf3", how="direct", n=17, twin=True, expect="violated", timeout=300))
    for n in ([1, 16, 17, 33] if tier == "quick" else list(range(1, 49, 5)) + [16, 17, 32, 33]):
        for framing in ("bf3", "bec2"):
            J.append(dict(name="sec:%s:n%d" % (framing, n), kind="sec", framing=framing, n=n, timeout=600, cost=60))
    J.append(dict(name="sec:twin-leak", kind="sec", framing="bf3", n=5, leak=True, expect="violated", timeout=300))
    J.append(dict(name="failclosed:bf3", kind="fc", framing="bf3", timeout=600, cost=80))
    J.append(dict(name="failclosed:bec2", kind="fc", framing="bec2", timeout=600, cost=80))
    J.append(dict(name="failclosed:unregistered", kind="fc", framing="unreg", timeout=300))
    return J


def _mk_comp(bf, content, n):
    return bf.Bf3Component(dict(CONFIG_DESC), content, n, encrypt_by_session_key=True)


def run_job(job):
    from vlib.enginea import sym, runner, stubs

    stubs.load_repo()
    UFCBC = stubs.install_uf_cbc()
    stubs.install_uf_crc()
    stubs.install_uf_sha()
    stubs.install_text_bypass()
    from bec2format import bf3file as bf, bec2file as b2, crypto
    from bec2format.crypto import pad

    kind = job["kind"]
    if kind == "rec":
        framing, how, twin = job["framing"], job["how"], job.get("twin")

        def h():
            key = sym.sym_bytes("key", 16)
            vals = dict(key=key)
            f = bf.Bf3File({}, [bf.Bf3Component({0xC3: b"\x02"}, sym.sym_bytes("fw", 3))])
            if how == "direct" and job.get("sparse"):
                # mostly concrete content; symbolic bytes in the first block, around every 1024-byte
                # boundary and at the end
                symat = set([0, 1, 15, 16, 1007, 1008, 1023, 1024, 1025, 1039, 1040])
                content = bytes((sym.sym_int("c%d_" % i, 0, 256) if i in symat else (i * 7 + 3) % 256) for i in range(job["n"]))
                f.components.append(_mk_comp(bf, content, job["n"]))
                vals["content"] = content
            elif how == "direct":
                content = sym.sym_bytes("content", job["n"])
                f.components.append(_mk_comp(bf, content, job["n"]))
                vals["content"] = content
            else:
                cfg = {}
                for i, L in enumerate(job["cfg"]):
                    cfg[(0x0100 + i, 0x10 + i)] = sym.sym_bytes("cv%d_" % i, L)
                    vals["cv%d" % i] = cfg[(0x0100 + i, 0x10 + i)]
                f.set_config(cfg)
                content = f.components[-1].blob
                if f.components[-1].encrypt_by_session_key is not True:
                    return False
            carrier = stubs.Carrier()
            runner.track(vals)
            if framing == "bf3":
                f.write_file(carrier, key)
                g = bf.Bf3File.read_file(carrier, True, key)
            else:
                ck = sym.sym_bytes("ck", 16)
                vals["ck"] = ck
                enc = [b2.SoftwareCustKeyEncryptor(ck)]
                w = b2.Bec2File(f, [b2.InitCustKeyAuthBlock()], key)
                w.write_file(carrier, enc)
                r = b2.Bec2File.read_file(carrier, enc)
                if r.session_key != key:
                    runner.record_witness(**vals)
                    return False
                g = r.bf3file
            raw = carrier.raw
            n = len(content)
            zpad = content + bytes(-n % 16)  # the documented padding, independent of crypto.pad
            stored = raw[len(raw) - len(zpad) :]
            model = stubs.model_cbc_encrypt(key, None, zpad)
            if len(raw) != 5 + 4 + 2 * (1 + 12 + 16 + 1 + 16) + 3 + sum(2 + len(v) for _, v in CONFIG_DESC) + 1 + 3 + len(zpad) and framing == "bf3" and how == "direct":
                runner.record_witness(**vals)
                return False
            gc = g.components[-1]
            ok = gc.blob[: gc.actual_len] == content and gc.actual_len == n and gc.encrypt_by_session_key is True and stored == model and len(g.components) == 2 and g.components[0].blob == f.components[0].blob
            if twin:
                ok = False
            if not ok:
                runner.record_witness(**vals)
            return ok

        res = runner.run(h, job["timeout"] - 60, job["timeout"] - 60)
        res["symbolic_dims"] = 16 + job.get("n", 0) + sum(job.get("cfg", []))
        if res["verdict"] == "violated":
            res["signature"] = "C06:recovery"
        return res

    if kind == "hist":
        n, var = job["n"], job["var"]

        def h():
            # one file object written twice: between the writes the encrypted component's content is replaced
            # (same length), or the second write uses another key
            key1 = sym.sym_bytes("key1", 16)
            key2 = sym.sym_bytes("key2", 16)
            c1 = sym.sym_bytes("c1", n)
            c2 = sym.sym_bytes("c2", n)
            vals = dict(key1=key1, key2=key2, c1=c1, c2=c2)
            runner.track(vals)
            comp = _mk_comp(bf, c1, n)
            f = bf.Bf3File({}, [bf.Bf3Component({0xC3: b"\x02"}, b"\x01\x02\x03"), comp])
            first = stubs.Carrier()
            k_first, k_second = key1, (key1 if var == "content-edit" else key2)
            f.write_file(first, k_first)
            if var == "content-edit":
                comp.blob = c2
            want = c2 if var == "content-edit" else c1
            second = stubs.Carrier()
            f.write_file(second, k_second)
            raw = second.raw
            zp = want + bytes(-n % 16)
            ok = raw[len(raw) - len(zp) :] == stubs.model_cbc_encrypt(k_second, None, zp)
            if ok:
                g = bf.Bf3File.read_file(second, True, k_second)
                ok = g.components[-1].blob[:n] == want and len(g.components) == 2
            if not ok:
                runner.record_witness(**vals)
            return ok

        res = runner.run(h, job["timeout"] - 60, job["timeout"] - 60)
        res["symbolic_dims"] = 32 + 2 * n
        if res["verdict"] == "violated":
            res["signature"] = "C06:stale-ciphertext"
        return res

    if kind == "rawdata":
        n = job["n"]

        def h():
            # the stored form of a long component is ONE CBC chain over the zero-padded content
            key = sym.sym_bytes("key", 16)
            symat = set([0, 1, 15, 16, 255, 256, 1007, 1008, 1023, 1024, 1025, 1039, 1040])
            content = bytes((sym.sym_int("c%d_" % i, 0, 256) if i in symat else (i * 7 + 3) % 256) for i in range(n))
            comp = _mk_comp(bf, content, n)
            runner.track(dict(key=key, content=content))
            stored = comp.get_raw_data(key)
            zp = content + bytes(-n % 16)
            ok = len(stored) == len(zp) and stored == stubs.model_cbc_encrypt(key, None, zp)
            if ok:
                back = bf.Bf3Component.from_encrypted_raw_data(dict(CONFIG_DESC), stored, n, key)
                ok = back.blob[:n] == content and back.encrypt_by_session_key is True
            if not ok:
                runner.record_witness(key=key, content=content)
            return ok

        res = runner.run(h, job["timeout"] - 60, job["timeout"] - 60)
        res["symbolic_dims"] = 27
        if res["verdict"] == "violated":
            res["signature"] = "C06:recovery"
        return res

    if kind == "sec":
        framing, n = job["framing"], job["n"]

        class Fresh(crypto.AES128):
            """cipher whose outputs are fresh symbolic bytes, identical across
            the two runs in call order"""

            tape = []
            pos = [0]

            def encrypt(self, data):
                L = len(pad(data))
                i = Fresh.pos[0]
                Fresh.pos[0] += 1
                if i == len(Fresh.tape):
                    Fresh.tape.append(sym.sym_bytes("c%d_" % i, L))
                out = Fresh.tape[i]
                if len(out) != L:
                    raise AssertionError("cipher call lengths differ between runs")
                return out

            def mac(self, data):
                return self.encrypt(data)[-16:]

            def decrypt(self, data):
                raise AssertionError("decrypt not expected while writing")

        def write_once(tag):
            content = sym.sym_bytes("content" + tag, n)
            key = sym.sym_bytes("key" + tag, 16)
            f = bf.Bf3File({"Public": "x"}, [bf.Bf3Component({0xC3: b"\x02"}, b"\x01\x02\x03"), _mk_comp(bf, content, n)])
            if job.get("leak"):
                f.components[0].description[0xC8] = content[:1]
            carrier = stubs.Carrier()
            secrets = dict(content=content, key=key)
            if framing == "bf3":
                f.write_file(carrier, key)
            else:
                ck = sym.sym_bytes("ck" + tag, 16)
                code = sym.sym_bytes("code" + tag, 8)
                custkey = sym.sym_bytes("custkey" + tag, 10)
                secrets.update(ck=ck, code=code, custkey=custkey)
                w = b2.Bec2File(f, [b2.InitCustKeyAuthBlock(), b2.UpdateAuthBlock(code, 7)], key)
                w.write_file(carrier, [b2.SoftwareCustKeyEncryptor(ck, custkey, 3)])
            return carrier.raw, Fresh.pos[0], secrets

        def h():
            crypto.register_AES128(Fresh)
            Fresh.tape = []
            Fresh.pos[0] = 0
            a, na, sa = write_once("A")
            Fresh.pos[0] = 0
            b, nb, sb = write_once("B")
            ok = na == nb and len(a) == len(b) and a == b
            if not ok:
                runner.record_witness(A={k: v for k, v in sa.items()}, B={k: v for k, v in sb.items()})
            return ok

        res = runner.run(h, job["timeout"] - 60, job["timeout"] - 60)
        res["symbolic_dims"] = 2 * (n + 16)
        if res["verdict"] == "violated":
            res["signature"] = "C06:secret-flows-to-output"
        return res

    if kind == "fc":
        framing = job["framing"]

        class Boom(Exception):
            pass

        def count_calls():
            # number of cipher-object method calls of one successful write
            calls = [0]

            class Counting(crypto.AES128):
                def encrypt(self, data):
                    calls[0] += 1
                    return bytes(len(pad(data)))

                def mac(self, data):
                    calls[0] += 1
                    return bytes(16)

            crypto.register_AES128(Counting)
            one_write(bytes(16), bytes(20))
            return calls[0]

        def one_write(key, content, carrier=None):
            f = bf.Bf3File({}, [bf.Bf3Component({0xC3: b"\x02"}, b"\x01\x02\x03"), _mk_comp(bf, content, len(content))])
            carrier = carrier or stubs.Carrier()
            if framing == "bec2":
                w = b2.Bec2File(f, [b2.InitCustKeyAuthBlock(), b2.UpdateAuthBlock(b"12345678", 1)], key)
                w.write_file(carrier, [b2.SoftwareCustKeyEncryptor(bytes(16))])
            else:
                f.write_file(carrier, key)
            return carrier

        if framing == "unreg":
            def h():
                crypto.register_AES128(crypto.AES128)
                key = sym.sym_bytes("key", 16)
                content = sym.sym_bytes("content", 20)
                f = bf.Bf3File({}, [_mk_comp(bf, content, 20)])
                carrier = stubs.Carrier()
                try:
                    f.write_file(carrier, key)
                except NotImplementedError:
                    return carrier.writes == 0
                return False

            res = runner.run(h, 200, 200)
            res["symbolic_dims"] = 36
            if res["verdict"] == "violated":
                res["signature"] = "C06:fail-open"
            return res

        TOTAL = [0]

        def h():
            total = TOTAL[0] = count_calls()
            key = sym.sym_bytes("key", 16)
            content = sym.sym_bytes("content", 20)
            ok = True
            for k in range(total):
                calls = [0]

                class Failing(crypto.AES128):
                    def _tick(self):
                        calls[0] += 1
                        if calls[0] - 1 == k:
                            raise Boom()

                    def encrypt(self, data):
                        self._tick()
                        return sym.sym_bytes("x", len(pad(data)))

                    def mac(self, data):
                        self._tick()
                        return sym.sym_bytes("m", 16)

                crypto.register_AES128(Failing)
                carrier = stubs.Carrier()
                try:
                    one_write(key, content, carrier)
                    ok = False  # the failure was swallowed
                except Boom:
                    if carrier.writes != 0:
                        ok = False  # something reached the stream before the failure
            return ok

        # a raised Boom leaves no carrier with data: one_write only returns after write_file; check writes inside
        res = runner.run(h, job["timeout"] - 60, job["timeout"] - 60)
        res["symbolic_dims"] = 36
        res["message"] = (res.get("message") or "") + " cipher calls per write=%d" % TOTAL[0]
        if res["verdict"] == "violated":
            res["signature"] = "C06:fail-open"
        return res
    raise ValueError(kind)


def _unhex(w):
    if isinstance(w, dict):
        if set(w) == {"hex"}:
            return bytes.fromhex(w["hex"])
        return {k: _unhex(v) for k, v in w.items()}
    return w


def replay(job):
    import register_crypto_plugin  # noqa
    from bec2format import bf3file as bf, bec2file as b2

    if job.get("twin") or job.get("leak"):
        return dict(reproduced=True, signature="twin")
    w = _unhex(job.get("witness") or {})
    kind = job["kind"]
    if kind == "rawdata":
        from register_crypto_plugin.pyaes import AESModeOfOperationCBC

        key = w.get("key", bytes(range(16)))
        content = w.get("content", bytes((i * 7 + 3) % 256 for i in range(job["n"])))
        f = bf.Bf3File({}, [_mk_comp(bf, content, len(content))])
        s = io.StringIO()
        f.write_file(s, key)
        rawb = bytes.fromhex("".join(s.getvalue().split("\n")[1:]))
        zp = content + bytes(-len(content) % 16)
        m_ = AESModeOfOperationCBC(key, bytes(16))
        want_ct = b"".join(m_.encrypt(zp[i : i + 16]) for i in range(0, len(zp), 16))
        s.seek(0)
        g = bf.Bf3File.read_file(s, True, key)
        bad = not rawb.endswith(want_ct) or g.components[0].blob[: len(content)] != content
        return dict(reproduced=bad, signature="C06:recovery", detail="%d-byte encrypted component: stored bytes %s CBC(key, 0, content||0*), read back %s" % (len(content), "==" if rawb.endswith(want_ct) else "!=", "equal" if g.components[0].blob[: len(content)] == content else "different"))
    if kind == "hist":
        n = job["n"]
        key1, key2 = w.get("key1", bytes(range(16))), w.get("key2", bytes(range(1, 17)))
        c1, c2 = w.get("c1", bytes(n)), w.get("c2", bytes(range(n)))
        if c1 == c2:
            c2 = bytes((x + 1) & 0xFF for x in c1)
        comp = _mk_comp(bf, c1, n)
        f = bf.Bf3File({}, [bf.Bf3Component({0xC3: b"\x02"}, b"\x01\x02\x03"), comp])
        f.write_file(io.StringIO(), key1)
        if job["var"] == "content-edit":
            comp.blob = c2
            want, k2 = c2, key1
        else:
            want, k2 = c1, key2
        s = io.StringIO()
        f.write_file(s, k2)
        s.seek(0)
        try:
            g = bf.Bf3File.read_file(s, True, k2)
            got = g.components[-1].blob[:n]
        except Exception as e:
            return dict(reproduced=True, signature="C06:stale-ciphertext", detail="second write of the same file object (%s) cannot be read back: %s: %s" % (job["var"], type(e).__name__, e))
        return dict(reproduced=got != want, signature="C06:stale-ciphertext", detail="file object written twice (%s between the writes): second file decrypts to %s, component holds %s" % (job["var"], got.hex(), want.hex()))
    if kind == "rec":
        import random

        rnd = random.Random(1)
        tries = []
        # the witness fixes content/key; the UF cipher may hide the condition (e.g. a plaintext
        # ending in 00) - search around the witness as documented: keep lengths, vary values
        cands = [w]
        for _ in range(300):
            c = dict(w)
            for k, v in list(c.items()):
                if isinstance(v, bytes) and rnd.random() < 0.6:
                    v = bytearray(rnd.randrange(256) for _ in v)
                    if rnd.random() < 0.5 and len(v):
                        v[-1] = 0
                    c[k] = bytes(v)
            cands.append(c)
        for c in cands:
            key = c.get("key", bytes(16))
            f = bf.Bf3File({}, [bf.Bf3Component({0xC3: b"\x02"}, c.get("fw", b"abc"))])
            if job["how"] == "direct":
                content = c.get("content", bytes(job["n"]))
                f.components.append(_mk_comp(bf, content, len(content)))
            else:
                cfg = {(0x0100 + i, 0x10 + i): c.get("cv%d" % i, bytes(L)) for i, L in enumerate(job["cfg"])}
                f.set_config(cfg)
                content = f.components[-1].blob
            s = io.StringIO()
            try:
                if job["framing"] == "bf3":
                    f.write_file(s, key)
                    s.seek(0)
                    g = bf.Bf3File.read_file(s, True, key)
                else:
                    enc = [b2.SoftwareCustKeyEncryptor(c.get("ck", bytes(16)))]
                    b2.Bec2File(f, [b2.InitCustKeyAuthBlock()], key).write_file(s, enc)
                    s.seek(0)
                    r = b2.Bec2File.read_file(s, enc)
                    if r.session_key != key:
                        return dict(reproduced=True, signature="C06:recovery", detail="session key differs")
                    g = r.bf3file
            except Exception as e:
                return dict(reproduced=True, signature="C06:recovery", detail="%s: %s (content=%s key=%s)" % (type(e).__name__, e, content.hex(), key.hex()))
            gc = g.components[-1]
            if job["framing"] == "bf3":
                from register_crypto_plugin.pyaes import AESModeOfOperationCBC

                rawb = bytes.fromhex("".join(s.getvalue().split("\n")[1:]))
                zp = content + bytes(-len(content) % 16)
                m_ = AESModeOfOperationCBC(key, bytes(16))
                want_ct = b"".join(m_.encrypt(zp[i : i + 16]) for i in range(0, len(zp), 16))
                if not rawb.endswith(want_ct) or rawb[-len(want_ct) - 1 : -len(want_ct)] != b"\x00":
                    return dict(reproduced=True, signature="C06:recovery", detail="stored payload is not CBC(key, 0, content zero-padded to 16): content %s, file tail %s" % (content.hex(), rawb[-48:].hex()))
            if not (gc.blob[: gc.actual_len] == content and gc.encrypt_by_session_key is True and gc.actual_len == len(content)):
                return dict(reproduced=True, signature="C06:recovery", detail="content %s key %s read back blob=%s actual_len=%s enc=%s" % (content.hex(), key.hex(), gc.blob.hex(), gc.actual_len, gc.encrypt_by_session_key))
        return dict(reproduced=False, detail="no reproduction in %d candidates" % len(cands))
    if kind == "sec":
        # two concrete writes of the real code that differ only in the secrets, with a
        # constant-output cipher registered through the library's own registry: any
        # difference in the output is a flow from a secret that bypasses the cipher
        from bec2format import crypto
        from bec2format.crypto import pad

        class Const(crypto.AES128):
            def encrypt(self, data):
                return bytes(len(pad(data)))

            def mac(self, data):
                return bytes(16)

        crypto.register_AES128(Const)
        outs = []
        for tag in ("A", "B"):
            sec = w.get(tag, {})
            n = job["n"]
            content = sec.get("content", bytes(n))
            key = sec.get("key", bytes(16))
            f = bf.Bf3File({"Public": "x"}, [bf.Bf3Component({0xC3: b"\x02"}, b"\x01\x02\x03"), _mk_comp(bf, content, n)])
            s = io.StringIO()
            if job["framing"] == "bf3":
                f.write_file(s, key)
            else:
                wf = b2.Bec2File(f, [b2.InitCustKeyAuthBlock(), b2.UpdateAuthBlock(sec.get("code", bytes(8)), 7)], key)
                wf.write_file(s, [b2.SoftwareCustKeyEncryptor(sec.get("ck", bytes(16)), sec.get("custkey", bytes(10)), 3)])
            outs.append(s.getvalue())
        return dict(reproduced=outs[0] != outs[1], signature="C06:secret-flows-to-output", detail="outputs of two writes differing only in secrets %s" % ("differ" if outs[0] != outs[1] else "are equal"))
    if kind == "fc":
        from bec2format import crypto

        class Boom(Exception):
            pass

        n_calls = [0]

        class Failing(crypto.AES128):
            K = None

            def _t(self):
                n_calls[0] += 1
                if n_calls[0] - 1 == Failing.K:
                    raise Boom()

            def encrypt(self, data):
                self._t()
                return bytes(-(-len(data) // 16) * 16)

            def mac(self, data):
                self._t()
                return bytes(16)

        crypto.register_AES128(Failing if job["framing"] != "unreg" else crypto.AES128)
        bad = []
        for k in range(0, 40):
            Failing.K = k
            n_calls[0] = 0
            s = io.StringIO()
            f = bf.Bf3File({}, [bf.Bf3Component({0xC3: b"\x02"}, b"\x01\x02\x03"), _mk_comp(bf, bytes(20), 20)])
            try:
                if job["framing"] == "bec2":
                    b2.Bec2File(f, [b2.InitCustKeyAuthBlock(), b2.UpdateAuthBlock(b"12345678", 1)], bytes(16)).write_file(s, [b2.SoftwareCustKeyEncryptor(bytes(16))])
                else:
                    f.write_file(s, bytes(16))
                if n_calls[0] > k or job["framing"] == "unreg":
                    bad.append("k=%d swallowed" % k)
            except (Boom, NotImplementedError):
                if s.getvalue():
                    bad.append("k=%d partial output" % k)
        return dict(reproduced=bool(bad), signature="C06:fail-open", detail="; ".join(bad)[:300])
    return dict(reproduced=False)
