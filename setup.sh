#!/bin/bash
# Build the overlay venv used by every check: /venv (the repository's own
# environment) + crosshair-tool + z3-solver + cvc5 from the offline wheelhouse.
set -e
cd "$(dirname "$0")"
V=/verif/.venv
if [ ! -x "$V/bin/python" ] || ! "$V/bin/python" -c "import crosshair, z3" 2>/dev/null; then
  rm -rf "$V"
  /venv/bin/python -m venv "$V"
  SP=$("$V/bin/python" -c "import sysconfig;print(sysconfig.get_paths()['purelib'])")
  echo "import site; site.addsitedir('/venv/lib/python3.12/site-packages')" > "$SP/_base.pth"
  PIP_NO_INDEX=1 "$V/bin/pip" install -q --no-index --find-links /opt/veriftools/wheels crosshair-tool z3-solver
  PIP_NO_INDEX=1 "$V/bin/pip" install -q --no-index --find-links /opt/veriftools/wheels cvc5 || echo "cvc5 wheel not installable; binary will be used"
fi
"$V/bin/python" -c "import crosshair, z3; print('venv ok', z3.get_version_string())"
