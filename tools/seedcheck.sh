#!/bin/bash
# tools/seedcheck.sh <seed-id> <property> <worktree> [--only SUBSTR] [--tier quick|thorough]
# Confirms a seeded change (patch.diff + demo.py from <worktree>/_seed) and runs the property's check on it:
#  1. demo exits 0 on the unchanged /repo tree
#  2. patch applies to a scratch copy of /repo's HEAD; demo exits 1 there
#  3. the pinned test suite on the patched copy loses no stable test
#  4. ./check <property> with VERIF_REPO=<patched copy>; exit code and VIOLATION lines are recorded
# Results -> /verif/seeded/<seed-id>/{patch.diff,demo.py,notes.md,meta.json,check.log}
set -u
ID=$1; PROP=$2; WT=$3; shift 3
ONLY=""; TIER=quick
while [ $# -gt 0 ]; do case $1 in --only) ONLY=$2; shift 2;; --tier) TIER=$2; shift 2;; *) shift;; esac; done
OUT=/verif/seeded/$ID; mkdir -p $OUT
cp $WT/_seed/patch.diff $WT/_seed/demo.py $OUT/ 2>/dev/null; cp $WT/_seed/notes.md $OUT/ 2>/dev/null
D=$(mktemp -d /tmp/seed_XXXX); trap 'rm -rf "$D"' EXIT
rsync -a --exclude .git --exclude t --exclude __pycache__ --exclude .hypothesis /repo/ "$D/"
PYTHONPATH=/repo:/repo/appnotes /venv/bin/python $OUT/demo.py >/dev/null 2>&1; E0=$?
( cd "$D" && patch -p1 -s < $OUT/patch.diff ); PA=$?
PYTHONPATH=$D:$D/appnotes /venv/bin/python $OUT/demo.py > $OUT/demo_patched.log 2>&1; E1=$?
( cd "$D" && /venv/bin/python -m pytest -q -p no:cacheprovider --timeout=900 --continue-on-collection-errors --junitxml="$D/j.xml" >/dev/null 2>&1
python3 - "$D/j.xml" <<'PY'
import json, sys, xml.etree.ElementTree as ET
stable=set(json.load(open('/root/.vp/BASELINE.json'))['stable_pass'])
res={}
for tc in ET.parse(sys.argv[1]).iter('testcase'):
    res[tc.get('classname')+'::'+tc.get('name')]=not any(c.tag in('failure','error','skipped') for c in tc)
bad=[s for s in stable if not res.get(s, False)]
print(json.dumps(bad))
PY
) > $OUT/baseline_patched.json 2>/dev/null
S=$(date +%s)
if [ -n "$ONLY" ]; then export VERIF_ONLY="$ONLY"; fi
VERIF_REPO=$D VERIF_EVIDENCE_DIR=$D/ev timeout 7000 /verif/check $PROP --tier $TIER > $OUT/check.log 2>&1; EC=$?
T=$(( $(date +%s) - S ))
python3 - <<PY
import json
log=open("$OUT/check.log").read()
viol=[l for l in log.splitlines() if l.startswith("VIOLATION")]
sigs=sorted(set(l.split("signature=")[1].split(" ")[0] for l in log.splitlines() if "signature=" in l))
meta=dict(seed="$ID", property="$PROP", demo_exit_unpatched=$E0, patch_applied=($PA==0), demo_exit_patched=$E1,
  stable_tests_lost=json.load(open("$OUT/baseline_patched.json")) if open("$OUT/baseline_patched.json").read().strip() else None,
  check_cmd="VERIF_REPO=<patched copy of /repo HEAD> ./check $PROP --tier $TIER" + (" (VERIF_ONLY=$ONLY)" if "$ONLY" else ""),
  check_exit=$EC, check_wall_s=$T, violations=len(viol), signatures=sigs, detected=($EC==1 and len(viol)>0),
  confirmed=($E0==0 and $PA==0 and $E1==1))
json.dump(meta, open("$OUT/meta.json","w"), indent=1)
print(json.dumps(meta))
PY
