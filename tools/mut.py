#!/usr/bin/env python3
"""Acceptance-mutation helper (development aid, not a registered check):
   tools/mut.py C01 bec2format/crypto.py 'OLD' 'NEW' [--only SUBSTR] [--tier quick]
copies /repo to a scratch dir outside /repo and /verif, applies the textual
replacement (must match exactly once), runs ./check with VERIF_REPO pointing
at the copy, prints the exit code, removes the copy."""
import os, shutil, subprocess, sys, tempfile

def main():
    a = sys.argv[1:]
    only = None; tier = "quick"
    if "--only" in a:
        i = a.index("--only"); only = a[i+1]; del a[i:i+2]
    if "--tier" in a:
        i = a.index("--tier"); tier = a[i+1]; del a[i:i+2]
    pid = a[0]
    edits = a[1:]
    d = tempfile.mkdtemp(prefix="mut_")
    try:
        for sub in ("bec2format", "appnotes"):
            shutil.copytree(os.path.join("/repo", sub), os.path.join(d, sub), ignore=shutil.ignore_patterns("__pycache__", "test_*.py"))
        if edits and edits[0] == "--patch":
            subprocess.run(["patch", "-p1", "-s", "-i", os.path.abspath(edits[1])], cwd=d, check=True)
        else:
            for k in range(0, len(edits), 3):
                f, old, new = edits[k:k+3]
                p = os.path.join(d, f); s = open(p).read()
                assert s.count(old) == 1, "pattern must match once, matched %d: %r" % (s.count(old), old)
                open(p, "w").write(s.replace(old, new))
        env = dict(os.environ, VERIF_REPO=d)
        if only: env["VERIF_ONLY"] = only
        env["VERIF_EVIDENCE_DIR"] = os.path.join(d, "evidence")
        r = subprocess.run(["/verif/check", pid, "--tier", tier], env=env, capture_output=True, text=True)
        print("\n".join(r.stdout.splitlines()[-12:]))
        print("EXIT", r.returncode)
    finally:
        shutil.rmtree(d, ignore_errors=True)
main()
