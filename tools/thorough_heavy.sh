#!/bin/bash
ln -sfn /verif/.venv .venv
for p in C16 C17 C14 C08 C05 C04; do
  s=$(date +%s)
  timeout 9000 ./check $p --tier thorough > thorough_$p.log 2>&1; ec=$?
  echo "$p exit=$ec wall=$(( $(date +%s) - s ))s $(tail -1 thorough_$p.log | cut -c1-200)"
  grep "^INCONCLUSIVE\|^VIOLATION" thorough_$p.log | cut -c1-200 | head -10
done
