#!/usr/bin/env python3
"""Regenerate /verif/MANIFEST.json from the property modules' META."""
import importlib, json, os, sys
sys.path.insert(0, "/verif")
os.environ.setdefault("VERIF_REPO", "/repo")
CLAIMED = [l.strip() for l in open("/verif/tools/claimed.txt") if l.strip()]
NA = json.load(open("/verif/tools/not_applicable.json"))
ENG = {"A": "Engine A: CrossHair 0.0.110 (z3) symbolic execution of the real Python functions with UF stubs", "B": "Engine B: exact-width bit-vector proxies driving the real code objects (z3 BV + UF)", "C": "Engine C: AST-generated SMT-LIB / transition systems decided by cvc5 and z3"}
checks = []
serves = {"A": [], "B": [], "C": []}
for pid in CLAIMED:
    m = importlib.import_module("props." + pid.lower())
    M = m.META
    for e in M.get("engines", "A"):
        serves[e].append(pid)
    checks.append(dict(
        property_id=pid,
        quick_cmd="./check %s --tier quick" % pid,
        thorough_cmd="./check %s --tier thorough" % pid,
        evidence_file="evidence/%s.json" % pid,
        replay_cmd_template="./check %s --replay {path}" % pid,
        engine="+".join(ENG[e].split(":")[0] for e in M.get("engines", "A")),
        level_claimed=dict(category=M.get("level", "other"), text=M["level_text"], design_ref=M.get("design_ref", "DESIGN.md section 3, " + pid)),
        level_note=M["level_note"],
        technique=M["technique"],
    ))
man = dict(
    version=1,
    setup_cmd="./setup.sh",
    hooks=dict(guard="BEC2FORMAT_VERIF", enable="none needed: no source hooks exist; stubs are injected at run time through the plug-in registry and module attributes of the checking process", baseline_off_cmd="cd /repo && /venv/bin/python -m pytest -ra -q -p no:cacheprovider --timeout=900 --continue-on-collection-errors", source_commits=[], add_only=True),
    engines=[dict(name=ENG[e].split(":")[0], path="vlib/engine%s" % e.lower(), serves_properties=serves[e], kind_free_text=ENG[e]) for e in "ABC"],
    checks=checks,
    notes="Exit codes: 0 held on everything explored (KNOWN-FINDING lines for listed findings), 1 replayed VIOLATION, 2 inconclusive (timeout/unknown/non-reproducing witness). VERIF_REPO may point the checks at another checkout (used for seeded-mutation runs). known_findings.json lists findings and fixed entries.",
    not_applicable=NA,
)
json.dump(man, open("/verif/MANIFEST.json", "w"), indent=1)
print("claimed", CLAIMED, "n/a", [x["property_id"] for x in NA])
