#!/bin/bash
ln -sfn /verif/.venv .venv
for p in C15 C10 C12 C13 C11 C09 C07 C03 C01 C06 C02 C16 C17 C20 C08 C14 C05 C04; do
  s=$(date +%s)
  ./check $p --tier thorough > thorough_$p.log 2>&1; ec=$?
  echo "$p exit=$ec wall=$(( $(date +%s) - s ))s $(tail -1 thorough_$p.log | cut -c1-200)"
done
