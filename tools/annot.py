#!/usr/bin/env python3
"""tools/annot.py <seed-id> <needs_to_manifest> <first_run> [<strengthening>]  - annotate seeded/<id>/meta.json"""
import json
import sys

sid, needs, first = sys.argv[1:4]
strength = sys.argv[4] if len(sys.argv) > 4 else ""
p = "/verif/seeded/%s/meta.json" % sid
m = json.load(open(p))
m["needs_to_manifest"] = needs
m["breaks_property"] = m["property"]
m["first_run"] = first
if strength:
    m["strengthening"] = strength
m["what_was_run"] = "tools/seedcheck.sh: demo on unchanged tree (exit 0), patch applied to a scratch copy of /repo HEAD, demo there (exit 1), pinned test suite there (no stable test lost beyond the known flaky hypothesis tests), then the registered check of the property with VERIF_REPO pointing at the patched copy"
json.dump(m, open(p, "w"), indent=1)
print(sid, m["detected"], m["check_exit"])
