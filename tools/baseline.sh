#!/bin/bash
# Run the repository's pinned test suite on a scratch copy of /repo's working tree (so that
# hypothesis' example database and caches in /repo are not touched) and compare with the
# stable baseline.  Development aid; not a registered check.
set -e
D=$(mktemp -d /tmp/baseline_XXXX)
trap 'rm -rf "$D"' EXIT
rsync -a --exclude .git --exclude t --exclude __pycache__ /repo/ "$D/"
cd "$D"
/venv/bin/python -m pytest -q -p no:cacheprovider --timeout=900 --continue-on-collection-errors --junitxml="$D/j.xml" 2>&1 | tail -1
python3 - "$D/j.xml" <<'PY'
import json, sys, xml.etree.ElementTree as ET
stable=set(json.load(open('/root/.vp/BASELINE.json'))['stable_pass'])
res={}
for tc in ET.parse(sys.argv[1]).iter('testcase'):
    res[tc.get('classname')+'::'+tc.get('name')]=not any(c.tag in('failure','error','skipped') for c in tc)
bad=[s for s in stable if not res.get(s, False)]
print("stable tests: %d, not passing now: %d %s" % (len(stable), len(bad), bad[:5]))
sys.exit(1 if bad else 0)
PY
